#!/bin/bash
# usage: tools/seed_eval.sh <seed-id> <worktree> <property> [more properties...]
# Confirms a seeded change (tests pass, demo fails with / passes without) and runs the checks against it.
ID=$1; WT=$2; shift 2; PROPS="$@"
cd "$(dirname "$0")/.."
OUT=seeded/$ID; mkdir -p $OUT
git -C $WT diff -- gaftools > $OUT/patch.diff
[ -s $OUT/patch.diff ] || { echo "no change in $WT"; exit 2; }
cp $WT/DEMO.py $OUT/demo.py 2>/dev/null; cp $WT/NOTES.md $OUT/notes.md 2>/dev/null
( cd $WT && PYTHONPATH=$WT /venv/bin/python -m pytest -q -p no:cacheprovider 2>&1 | tail -1 ) > $OUT/pytest.txt
( cd $WT && PYTHONPATH=$WT timeout 300 /venv/bin/python DEMO.py > /dev/null 2>&1; echo $? ) > $OUT/demo_changed.rc
git -C $WT apply -R $(pwd)/$OUT/patch.diff
( cd $WT && PYTHONPATH=$WT timeout 300 /venv/bin/python DEMO.py > /dev/null 2>&1; echo $? ) > $OUT/demo_orig.rc
git -C $WT apply $(pwd)/$OUT/patch.diff
echo "[$ID] pytest: $(cat $OUT/pytest.txt) | demo changed rc=$(cat $OUT/demo_changed.rc) orig rc=$(cat $OUT/demo_orig.rc)"
for P in $PROPS; do
  VP_REPO=$WT VP_EVIDENCE_DIR=$(pwd)/work/seeded-evidence/$ID ./check $P --no-conform $SEED_EVAL_FLAGS > $OUT/check_$P.out 2> $OUT/check_$P.err
  rc=$?
  echo "[$ID] check $P rc=$rc violations=$(grep -c '^VIOLATION' $OUT/check_$P.out) $(grep -h 'obligations=' $OUT/check_$P.err | tail -1 | sed 's/.*\] //')"
  grep -h "^VIOLATION" -A1 $OUT/check_$P.out $OUT/check_$P.err 2>/dev/null | head -4 | cut -c1-300
done
