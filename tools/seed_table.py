#!/usr/bin/env python3
"""Regenerates the table of seeded changes in DESIGN.md from seeded/*/meta.json"""
import json, os, re
HOME = os.path.dirname(os.path.dirname(os.path.abspath(__file__)))
rows = ["| seeded change | breaks | needs to manifest | checks run -> outcome |", "|---|---|---|---|"]
for d in sorted(os.listdir(os.path.join(HOME, "seeded"))):
    mp = os.path.join(HOME, "seeded", d, "meta.json")
    if not os.path.exists(mp):
        continue
    m = json.load(open(mp))
    outs = []
    for c, r in sorted(m.get("checks", {}).items()):
        v = r.get("violation_lines", 0)
        outs.append("%s: %s" % (c, ("caught (%d VIOLATION lines)" % v) if v else "MISSED"))
    if m.get("history"):
        outs.append("(" + m["history"] + ")")
    rows.append("| %s | %s | %s | %s |" % (d, m["breaks_property"], m["needs_to_manifest"].replace("|", "\\|"), "; ".join(outs)))
table = "<!-- seed-table -->\n" + "\n".join(rows) + "\n<!-- /seed-table -->"
p = os.path.join(HOME, "DESIGN.md")
s = open(p).read()
if "SEEDTABLE" in s:
    s = s.replace("SEEDTABLE", table)
else:
    s = re.sub(r"<!-- seed-table -->.*?<!-- /seed-table -->", lambda _: table, s, flags=re.S)
open(p, "w").write(s)
print(len(rows) - 2, "rows")
