#!/bin/bash
# usage: tools/run_all.sh [quick|thorough] [props...]   -- runs the checks one after the other, prints a summary table
cd "$(dirname "$0")/.."
TIER=${1:-quick}; shift
PROPS=${@:-C01 C02 C03 C04 C05 C06 C07 C08 C09 C10 C11 C12 C13 C14 C15 C16 C17 C18 C19 C20}
mkdir -p work
for p in $PROPS; do
  s=$(date +%s)
  ./check $p --tier $TIER > work/$p.$TIER.out 2> work/$p.$TIER.err
  rc=$?
  e=$(date +%s)
  echo "$p rc=$rc wall=$((e-s))s $(grep -h 'obligations=' work/$p.$TIER.err | tail -1 | sed 's/.*\] //') $(grep -c VIOLATION work/$p.$TIER.out) viol $(grep -c KNOWN-FINDING work/$p.$TIER.out) known"
done
