#!/bin/bash
# usage: tools/seed_regress.sh [seed-id ...]   (default: every directory under seeded/)
# Re-applies each kept seeded change to a scratch worktree of /repo (outside /repo and /verif), runs the check of the property it breaks
# and reports whether the check still raises a VIOLATION.  Worktrees are removed as soon as each seed is done.
cd "$(dirname "$0")/.."
IDS="$@"; [ -z "$IDS" ] && IDS=$(ls seeded)
BASE=${SEED_TMP:-/tmp/seedreg}
mkdir -p $BASE work/regress
for ID in $IDS; do
  [ -f seeded/$ID/patch.diff ] || continue
  P=$(python3 -c "import json;print(json.load(open('seeded/$ID/meta.json'))['breaks_property'])" 2>/dev/null)
  [ -z "$P" ] && P=${ID:0:3}
  WT=$BASE/$ID
  # a seed written against an older tree (meta.json: base_commit) is re-applied to that tree
  BC=$(python3 -c "import json;print((json.load(open('seeded/$ID/meta.json')).get('base_commit') or 'HEAD').split()[0])" 2>/dev/null)
  [ -z "$BC" ] && BC=HEAD
  git -C /repo worktree add -q --detach $WT $BC 2>/dev/null || { echo "$ID worktree failed"; continue; }
  if git -C $WT apply $(pwd)/seeded/$ID/patch.diff 2>/dev/null; then
    VP_REPO=$WT VP_EVIDENCE_DIR=$(pwd)/work/seeded-evidence/reg-$ID ./check $P --no-conform --fail-fast > work/regress/$ID.out 2> work/regress/$ID.err
    rc=$?
    echo "$ID $P rc=$rc violations=$(grep -c '^VIOLATION' work/regress/$ID.out) $(grep -h 'obligations=' work/regress/$ID.err | tail -1 | sed 's/.*\] //')"
  else
    # written against the tree before a later repair touched the same lines: re-apply it to that tree
    git -C /repo worktree remove --force $WT
    git -C /repo worktree add -q --detach $WT a977e78 2>/dev/null
    if git -C $WT apply $(pwd)/seeded/$ID/patch.diff 2>/dev/null; then
      VP_REPO=$WT VP_EVIDENCE_DIR=$(pwd)/work/seeded-evidence/reg-$ID ./check $P --no-conform --fail-fast > work/regress/$ID.out 2> work/regress/$ID.err
      rc=$?
      echo "$ID $P (on a977e78) rc=$rc violations=$(grep -c '^VIOLATION' work/regress/$ID.out) $(grep -h 'obligations=' work/regress/$ID.err | tail -1 | sed 's/.*\] //')"
    else
      echo "$ID patch does not apply to /repo HEAD nor to a977e78"
    fi
  fi
  git -C /repo worktree remove --force $WT
  rm -rf work/seeded-evidence/reg-$ID
done
git -C /repo worktree prune
