#!/usr/bin/env python3
"""Regenerates /verif/MANIFEST.json from the per-property modules (python3 tools/gen_manifest.py)."""
import importlib
import json
import os
import sys

HOME = os.path.dirname(os.path.dirname(os.path.abspath(__file__)))
sys.path.insert(0, HOME)

ALL = ["C%02d" % i for i in range(1, 21)]
NOT_YET = "check not built yet in this revision of /verif (see DESIGN.md section 4 for the plan)"

LEVEL_NOTE = {
}

checks = []
na = []
for pid in ALL:
    path = os.path.join(HOME, "vp", "props", pid.lower() + ".py")
    if not os.path.exists(path):
        na.append({"property_id": pid, "reason": NOT_YET})
        continue
    mod = importlib.import_module("vp.props." + pid.lower())
    meta = mod.META
    if meta.get("not_applicable"):
        na.append({"property_id": pid, "reason": meta["not_applicable"]})
        continue
    checks.append({
        "property_id": pid,
        "quick_cmd": "./check %s --tier quick" % pid,
        "thorough_cmd": "./check %s --tier thorough" % pid,
        "evidence_file": "/verif/evidence/%s.json" % pid,
        "replay_cmd_template": "./check %s --replay {path}" % pid,
        "engine": "crosshair-z3",
        "level_claimed": {
            "category": meta.get("level", "other"),
            "text": meta["explanation"] + " Bounds: " + json.dumps(meta.get("bounds")) + ". Holds within these "
            "bounds for every integer value of the symbolic inputs; nothing is claimed outside them.",
            "design_ref": "DESIGN.md section 4 (%s)" % pid,
        },
        "level_note": "Trusted base: CrossHair 0.0.110 + z3 wheel; the FieldStr/number-rendering runtime and the "
                      "environment stubs of DESIGN section 3 (" + "; ".join(meta.get("assumptions", [])) + "). Outside the claim: "
                      + "; ".join(meta.get("out", [])) + ".",
        "technique": meta.get("technique", "bounded symbolic execution of the real Python functions (CrossHair + z3), "
                                           "counterexamples replayed on the unmodified CLI"),
    })

man = {
    "version": 1,
    "setup_cmd": "bash /verif/setup.sh",
    "hooks": {
        "guard": "MARSCHALL_LAB_GAFTOOLS_VERIF",
        "enable": "export MARSCHALL_LAB_GAFTOOLS_VERIF=1 (set by ./check); hooks are read at run time, no build step",
        "baseline_off_cmd": "cd /repo && env -u MARSCHALL_LAB_GAFTOOLS_VERIF /venv/bin/python -m pytest -ra -q -p no:cacheprovider --timeout=900 --continue-on-collection-errors",
        "source_commits": json.load(open(os.path.join(HOME, "hooks.json")))["source_commits"] if os.path.exists(os.path.join(HOME, "hooks.json")) else [],
        "add_only": True,
    },
    "engines": [
        {"name": "crosshair-z3", "path": "/verif/vp", "serves_properties": [c["property_id"] for c in checks],
         "kind_free_text": "import hook loads gaftools.* from /repo's working tree on every run, AST-instruments it "
                           "(string formatting of symbolic ints, float division, loop fuel), injects environment stubs "
                           "and runs generated PEP-316 harnesses through CrossHair's core as a library; z3 decides every "
                           "branch; models are replayed on the unmodified code through the CLI entry points"},
    ],
    "checks": checks,
    "not_applicable": na,
    "notes": "Exit 0: held on everything explored (inconclusive obligations are listed in the evidence, never counted as "
             "discharged). Exit 1: replayed violation not listed in known_findings.json. Exit 3: harness error.",
}
json.dump(man, open(os.path.join(HOME, "MANIFEST.json"), "w"), indent=1)
print("checks:", [c["property_id"] for c in checks], "na:", [n["property_id"] for n in na])
