#!/usr/bin/env python3
"""Rebuilds the table of harness groups (per property and tier) between the <!-- harness-table --> markers of DESIGN.md
from what `./check C<nn> --list` reports, so the document cannot drift from the checks."""
import collections
import os
import re
import subprocess

HOME = os.path.dirname(os.path.dirname(os.path.abspath(__file__)))


def groups(prop, tier):
    out = subprocess.run([os.path.join(HOME, "check"), prop, "--tier", tier, "--list"], capture_output=True, text=True, cwd=HOME).stdout
    c = collections.OrderedDict()
    for line in out.splitlines():
        hid = line.split(" ", 1)[0]
        g = hid.split("/")[0]
        c[g] = c.get(g, 0) + 1
    return c


rows = ["| property | harness groups, quick tier (count) | thorough tier |", "|---|---|---|"]
for i in range(1, 21):
    p = "C%02d" % i
    q, t = groups(p, "quick"), groups(p, "thorough")
    rows.append("| %s | %s | %s |" % (p, ", ".join("%s (%d)" % kv for kv in q.items()), ", ".join("%s (%d)" % kv for kv in t.items())))
text = "\n".join(rows)
path = os.path.join(HOME, "DESIGN.md")
s = open(path).read()
a, b = "<!-- harness-table -->", "<!-- /harness-table -->"
if a in s and b in s:
    s = s[:s.index(a) + len(a)] + "\n" + text + "\n" + s[s.index(b):]
    open(path, "w").write(s)
print(text)
