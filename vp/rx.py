"""Python regular expression (the subset gaftools uses) -> z3 regular expression, via the
standard library's own regex parser.  Anything outside the subset raises NotTranslatable
(=> the query is inconclusive, never a pass)."""
import re._constants as sc
import re._parser as sp

import z3


class NotTranslatable(Exception):
    pass


def _cls(items):
    """IN item list -> (list of (lo, hi) ranges, negated)"""
    ranges = []
    neg = False
    for op, av in items:
        if op is sc.NEGATE:
            neg = True
        elif op is sc.LITERAL:
            ranges.append((av, av))
        elif op is sc.RANGE:
            ranges.append(av)
        elif op is sc.CATEGORY:
            if av is sc.CATEGORY_DIGIT:
                ranges.append((48, 57))
            elif av is sc.CATEGORY_WORD:
                ranges += [(48, 57), (65, 90), (97, 122), (95, 95)]
            elif av is sc.CATEGORY_SPACE:
                ranges += [(9, 13), (32, 32)]
            else:
                raise NotTranslatable("category %r" % (av,))
        else:
            raise NotTranslatable("class item %r" % (op,))
    return ranges, neg


ALPHABET = (1, 126)  # the universe for negated classes / '.': ASCII without NUL and DEL


def _ranges_re(ranges, neg=False):
    if neg:
        # complement inside the printable universe
        pts = sorted(ranges)
        out = []
        cur = ALPHABET[0]
        for lo, hi in pts:
            if lo > cur:
                out.append((cur, lo - 1))
            cur = max(cur, hi + 1)
        if cur <= ALPHABET[1]:
            out.append((cur, ALPHABET[1]))
        ranges = out
    parts = [z3.Range(chr(lo), chr(hi)) if lo != hi else z3.Re(chr(lo)) for lo, hi in ranges]
    if not parts:
        return z3.Empty(z3.ReSort(z3.StringSort()))
    return parts[0] if len(parts) == 1 else z3.Union(*parts)


def char_item(op, av):
    """single-character regex item -> (ranges, neg) or None"""
    if op is sc.LITERAL:
        return [(av, av)], False
    if op is sc.NOT_LITERAL:
        return [(av, av)], True
    if op is sc.IN:
        return _cls(av)
    if op is sc.ANY:
        return [(10, 10)], True
    return None


def seq_re(seq):
    parts = []
    for op, av in seq:
        ci = char_item(op, av)
        if ci is not None:
            parts.append(_ranges_re(*ci))
        elif op is sc.MAX_REPEAT or op is sc.MIN_REPEAT:
            lo, hi, sub = av
            inner = seq_re(sub)
            if hi is sc.MAXREPEAT:
                if lo == 0:
                    parts.append(z3.Star(inner))
                elif lo == 1:
                    parts.append(z3.Plus(inner))
                else:
                    parts.append(z3.Concat(*([inner] * lo + [z3.Star(inner)])))
            elif (lo, hi) == (0, 1):
                parts.append(z3.Option(inner))
            else:
                parts.append(z3.Loop(inner, lo, hi))
        elif op is sc.SUBPATTERN:
            parts.append(seq_re(av[3]))
        elif op is sc.BRANCH:
            parts.append(z3.Union(*[seq_re(b) for b in av[1]]))
        elif op is sc.AT:
            if av in (sc.AT_BEGINNING, sc.AT_END, sc.AT_BEGINNING_STRING, sc.AT_END_STRING):
                continue
            raise NotTranslatable("anchor %r" % (av,))
        else:
            raise NotTranslatable("regex op %r" % (op,))
    if not parts:
        return z3.Re("")
    return parts[0] if len(parts) == 1 else z3.Concat(*parts)


def to_z3(pattern):
    """language of full matches of `pattern` (anchors at the ends are implied/ignored)"""
    return seq_re(list(sp.parse(pattern)))


def decompose(pattern):
    """pattern of the shape  ^?(X)(Y{m,})$?  with X a fixed-length sequence of single-character
    items and Y one single-character item repeated without upper bound.  Returns dict or raises."""
    seq = list(sp.parse(pattern))
    anchored_start = anchored_end = False
    if seq and seq[0][0] is sc.AT and seq[0][1] in (sc.AT_BEGINNING, sc.AT_BEGINNING_STRING):
        anchored_start = True
        seq = seq[1:]
    if seq and seq[-1][0] is sc.AT and seq[-1][1] in (sc.AT_END, sc.AT_END_STRING):
        anchored_end = True
        seq = seq[:-1]
    flat = []
    groups = []

    def walk(items, depth):
        for op, av in items:
            if op is sc.SUBPATTERN:
                start = len(flat)
                walk(av[3], depth + 1)
                groups.append((av[0], start, len(flat)))
            else:
                flat.append((op, av))

    walk(seq, 0)
    if not flat:
        raise NotTranslatable("empty pattern")
    last = flat[-1]
    if last[0] not in (sc.MAX_REPEAT,) or last[1][1] is not sc.MAXREPEAT or len(last[1][2]) != 1:
        raise NotTranslatable("pattern does not end in an unbounded repetition of a character class")
    y = char_item(*last[1][2][0])
    if y is None:
        raise NotTranslatable("repeated item is not a character class")
    xs = []
    for op, av in flat[:-1]:
        ci = char_item(op, av)
        if ci is None:
            raise NotTranslatable("prefix item is not a single character")
        xs.append(ci)
    groups.sort()
    return {"x": xs, "y": y, "ymin": last[1][0], "start": anchored_start, "end": anchored_end,
            "groups": [(s, e) for _, s, e in groups], "nflat": len(flat)}


def x_re(xs):
    if not xs:
        return z3.Re("")
    parts = [_ranges_re(*ci) for ci in xs]
    return parts[0] if len(parts) == 1 else z3.Concat(*parts)


def y_re(y, ymin):
    r = _ranges_re(*y)
    return z3.Plus(r) if ymin >= 1 else z3.Star(r)
