"""Worker: runs harnesses of one property under CrossHair (as a library) and prints one JSON
line per harness.  Started by vp.main as `python -m vp.engine <prop>`; reads harness specs
(JSON, one per line) on stdin."""
import importlib
import json
import linecache
import os
import sys
import time
import traceback

from . import loader, rt, stubs

STATS = {}


def _reset_stats():
    STATS.clear()
    STATS.update(
        paths=0, reached=0, unsupported=[], fail=None, z3_queries=0, z3_seconds=0.0, z3_unknown=0,
        sample_paths=[],
    )


_PATCHED = [False]


def _patch_z3():
    if _PATCHED[0]:
        return
    import z3

    orig = z3.Solver.check

    def check(self, *a):
        t = time.perf_counter()
        r = orig(self, *a)
        STATS["z3_seconds"] += time.perf_counter() - t
        STATS["z3_queries"] += 1
        if r == z3.unknown:
            STATS["z3_unknown"] += 1
        return r

    z3.Solver.check = check
    _PATCHED[0] = True


class Harness:
    """args: list of (name, type-name); pre: list of python expressions over the args;
    case(*args) -> None (property held on this path) or a string (what failed)."""

    def __init__(self, args, pre, case, fuel=200, note=""):
        self.args = args
        self.pre = pre
        self.case = case
        self.fuel = fuel
        self.note = note


class Direct:
    """an obligation decided by a direct solver query: fn() -> dict(verdict=..., fail=..., ...)"""

    def __init__(self, fn, note=""):
        self.fn = fn
        self.note = note


_GEN = [0]


def _make_fn(h, twin):
    _GEN[0] += 1
    name = "h%d" % _GEN[0]
    sig = ", ".join("%s: %s" % (a, t) for a, t in h.args) or "vp_dummy: int"
    pre = list(h.pre) if h.args else ["vp_dummy == 0"]
    lines = ["def %s(%s) -> bool:" % (name, sig), '    """']
    for p in pre:
        lines.append("    pre: " + p)
    lines.append("    post: _")
    lines.append('    """')
    argt = ", ".join(a for a, _ in h.args)
    lines.append("    return _vp_run((%s))" % (argt + "," if h.args else ""))
    src = "\n".join(lines) + "\n"
    fname = "<vp-harness-%d>" % _GEN[0]
    linecache.cache[fname] = (len(src), None, src.splitlines(True), fname)

    def _vp_run(args):
        return run_case(h, args, twin)

    ns = {"_vp_run": _vp_run}
    exec(compile(src, fname, "exec"), ns)
    fn = ns[name]
    fn.__module__ = "__main__"
    return fn, src


def _plain_str(x):
    """a builtin str for a failure text that may have been assembled from symbolic pieces"""
    from crosshair.core import deep_realize, realize

    for f in (deep_realize, realize):
        try:
            y = f(x)
            if type(y) is str:
                return y
        except Exception:
            pass
    try:
        return "".join(chr(int(realize(ord(c)))) for c in x)
    except Exception:
        return "<failure text could not be made concrete>"


def run_case(h, args, twin):
    from crosshair.core import deep_realize
    from crosshair.util import NotDeterministic

    stubs.reset()
    rt.EXTRA.clear()
    rt.set_fuel(h.fuel)
    del rt.ROUNDS[:]
    STATS["paths"] += 1
    try:
        r = h.case(*args)
    except rt.Unsupported as e:
        STATS["unsupported"].append(repr(e)[:300] + " @ " + _where(e))
        return True
    except NotDeterministic:
        raise
    except rt.LoopBound as e:
        r = "LOOP: " + str(e)
    except stubs.HarnessFailure as e:
        r = "ENV: " + str(e)
    except (Exception, SystemExit) as e:
        r = "EXC: %s: %s @ %s" % (type(e).__name__, _short(e), _where(e))
    if isinstance(r, str) and r == "SKIP":
        return True  # outside the harness precondition (computed in the body)
    if r is None:
        STATS["reached"] += 1
        if len(STATS["sample_paths"]) < 3:
            try:
                STATS["sample_paths"].append([_js(x) for x in deep_realize(tuple(args))])
            except Exception:
                pass
        return not twin
    try:
        real = [_js(x) for x in deep_realize(tuple(args))]
    except Exception as e:  # pragma: no cover
        real = ["<unrealizable %r>" % (e,)]
    reason = _plain_str(r)
    STATS["fail"] = {"args": real, "reason": reason}
    if rt.EXTRA:
        try:
            STATS["fail"]["extra"] = {k: _js(deep_realize(v)) for k, v in rt.EXTRA.items()}
        except Exception:
            pass
    return False


PROBE_ARGS = []  # the first argument tuples that satisfied the precondition (handed to the replay when nothing else decided)


def concrete_probe(h, seed, want=60, tries=40000):
    import random

    rnd = random.Random(seed)
    names = [a for a, _ in h.args]
    dom = list(range(0, 13)) + [15, 20, 50, 99, 100, 101, 1000]
    ran = 0
    del PROBE_ARGS[:]
    code = [compile(p, "<pre>", "eval") for p in h.pre]
    for _ in range(tries):
        vals = [rnd.choice(dom) for _ in names]
        env = dict(zip(names, vals))
        try:
            if not all(eval(c, {}, env) for c in code):
                continue
        except Exception:
            continue
        ran += 1
        if len(PROBE_ARGS) < 3:
            PROBE_ARGS.append(list(vals))
        stubs.reset()
        rt.EXTRA.clear()
        rt.set_fuel(h.fuel)
        try:
            r = h.case(*vals)
        except rt.Unsupported:
            r = None
        except rt.LoopBound as e:
            r = "LOOP: " + str(e)
        except stubs.HarnessFailure as e:
            r = "ENV: " + str(e)
        except (Exception, SystemExit) as e:
            r = "EXC: %s: %s @ %s" % (type(e).__name__, _short(e), _where(e))
        if r is not None and r != "SKIP":
            return {"args": vals, "reason": str(r), "found_by": "concrete probe after the symbolic run hit an unsupported operation"}, ran
        if ran >= want:
            break
    return None, ran


def _short(e):
    try:
        s = str(e)
    except Exception:
        s = "<unprintable>"
    return s[:300]


def _where(e):
    tb = traceback.extract_tb(e.__traceback__)
    for fr in reversed(tb):
        if "/gaftools/" in fr.filename:
            return "%s:%d" % (os.path.relpath(fr.filename, loader.REPO), fr.lineno)
    for fr in reversed(tb):
        if "/vp/props/" in fr.filename:
            return "%s:%d" % (os.path.basename(fr.filename), fr.lineno)
    return "?"


def _js(x):
    if isinstance(x, bool):
        return bool(x)
    if isinstance(x, int):
        return int(x)
    if isinstance(x, (str, float)) or x is None:
        return x
    if isinstance(x, (list, tuple)):
        return [_js(y) for y in x]
    return repr(x)


def run_harness(mod, spec):
    from crosshair.core import analyze_function, run_checkables
    import crosshair.core_and_libs  # noqa: F401  (registers library contracts)
    from crosshair.options import AnalysisOptionSet
    from crosshair.statespace import MessageType

    _patch_z3()
    _reset_stats()
    del rt.SAMPLES[:]
    t0 = time.time()
    twin = bool(spec.get("twin"))
    out = {"id": spec["id"], "twin": twin, "params": spec.get("params")}
    try:
        h = mod.build(spec["params"])
        if hasattr(h, "fn") and not hasattr(h, "args"):
            res = h.fn()
            out.update(res)
            out.setdefault("paths", 1 if res.get("verdict") in ("confirmed", "refuted") else 0)
            out.setdefault("reached", out["paths"])
            out.update(z3_queries=STATS["z3_queries"] + res.get("queries", 0) // 2, z3_seconds=round(STATS["z3_seconds"], 3),
                       z3_unknown=STATS["z3_unknown"], wall=round(time.time() - t0, 2), sample_paths=[res.get("fail") or res.get("note") or "unsat"],
                       unsupported=[])
            out.setdefault("fail", None)
            return out
        fn, src = _make_fn(h, twin)
        opts = AnalysisOptionSet(
            per_condition_timeout=float(spec.get("timeout", 60)),
            per_path_timeout=float(spec.get("path_timeout", 30)),
            max_iterations=10**9,
            max_uninteresting_iterations=10**9,
            report_all=True,
        )
        msgs = list(run_checkables(analyze_function(fn, opts)))
        states = [m.state.name for m in msgs]
        out["cx_states"] = states
        out["cx_message"] = " | ".join(m.message[:400] for m in msgs if m.state != MessageType.CONFIRMED)
        if twin:
            verdict = "twin"
        elif STATS["fail"] is not None and any(s in ("POST_FAIL", "EXEC_ERR", "POST_ERR") for s in states):
            verdict = "refuted"
        elif any(s in ("POST_FAIL", "EXEC_ERR", "POST_ERR", "SYNTAX_ERR", "IMPORT_ERR") for s in states):
            verdict = "error"
        elif states == ["CONFIRMED"]:
            if STATS["unsupported"] or STATS["z3_unknown"]:
                verdict = "inconclusive"
            elif STATS["reached"] == 0:
                verdict = "vacuous"
            else:
                verdict = "confirmed"
        elif "PRE_UNSAT" in states:
            verdict = "pre_unsat"
        else:
            verdict = "inconclusive"
        nondet = verdict == "error" and "NotDeterministic" in (out.get("cx_message") or "")
        if nondet:
            # the code under analysis behaved differently on identical decisions: it keeps state between calls
            verdict = "inconclusive"
        if verdict == "inconclusive" and not twin:
            # Safety net, bug hunting only: the symbolic run met an operation the runtime cannot model, or ran out of its
            # time budget (typically because the code under analysis changed).  Probe the same harness with concrete values that satisfy the precondition;
            # a failure found this way is replayed like any other counterexample, a clean probe leaves the obligation
            # INCONCLUSIVE (it is never counted as discharged).
            pf = concrete_probe(h, int(spec.get("seed", 0)))
            out["probe"] = {"ran": pf[1], "failed": pf[0] is not None, "args": [list(a) for a in PROBE_ARGS]}
            if pf[0] is not None:
                STATS["fail"] = pf[0]
                verdict = "refuted"
        out["verdict"] = verdict
        out["pre"] = h.pre
        out["args"] = [a for a, _ in h.args]
        out["note"] = h.note
    except Exception as e:
        out["verdict"] = "error"
        out["cx_message"] = "harness construction/analysis error: " + "".join(
            traceback.format_exception(type(e), e, e.__traceback__)
        )[-1500:]
    out.update(
        paths=STATS["paths"], reached=STATS["reached"], unsupported=STATS["unsupported"][:5],
        fail=STATS["fail"], z3_queries=STATS["z3_queries"], z3_seconds=round(STATS["z3_seconds"], 3),
        z3_unknown=STATS["z3_unknown"], sample_paths=(list(rt.SAMPLES[:3]) or STATS["sample_paths"]), wall=round(time.time() - t0, 2),
    )
    return out


def main():
    prop = sys.argv[1]
    loader.install("sym")
    mod = importlib.import_module("vp.props." + prop.lower())
    if hasattr(mod, "setup"):
        mod.setup()
    print(json.dumps({"ready": True, "sites": {k: len(v) for k, v in loader.SITES.items()}}), flush=True)
    for line in sys.stdin:
        line = line.strip()
        if not line:
            continue
        spec = json.loads(line)
        if spec.get("quit"):
            break
        res = run_harness(mod, spec)
        print("VPRESULT " + json.dumps(res, default=repr), flush=True)


if __name__ == "__main__":
    main()
