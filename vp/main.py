"""Orchestrator: ./check <prop> [--tier quick|thorough] [--jobs N] [--only s] [--replay path]"""
import argparse
import importlib
import json
import os
import queue
import random
import select
import subprocess
import sys
import threading
import time

HOME = os.environ.get("VP_HOME", os.path.dirname(os.path.dirname(os.path.abspath(__file__))))
EVDIR = os.environ.get("VP_EVIDENCE_DIR") or os.path.join(HOME, "evidence")
REPO = os.environ.get("VP_REPO", "/repo")
PY = sys.executable


def log(*a):
    print(*a, file=sys.stderr, flush=True)


class Worker:
    def __init__(self, prop, hashseed):
        env = dict(os.environ)
        env["PYTHONHASHSEED"] = str(hashseed)
        env["PYTHONPATH"] = HOME
        self.hashseed = hashseed
        self.p = subprocess.Popen(
            [PY, "-m", "vp.engine", prop], stdin=subprocess.PIPE, stdout=subprocess.PIPE,
            stderr=subprocess.DEVNULL, cwd=HOME, env=env, text=True, bufsize=1,
        )
        self.ready = self._read(120)

    def _read(self, timeout):
        deadline = time.time() + timeout
        buf = ""
        while True:
            left = deadline - time.time()
            if left <= 0:
                return None
            r, _, _ = select.select([self.p.stdout], [], [], min(left, 1.0))
            if r:
                line = self.p.stdout.readline()
                if line == "":
                    return None
                line = line.strip()
                if line.startswith("VPRESULT "):
                    return json.loads(line[9:])
                if line.startswith("{"):
                    try:
                        return json.loads(line)
                    except Exception:
                        pass
            elif self.p.poll() is not None:
                return None

    def run(self, spec, wall):
        try:
            self.p.stdin.write(json.dumps(spec) + "\n")
            self.p.stdin.flush()
        except Exception:
            return None
        return self._read(wall)

    def kill(self):
        try:
            self.p.kill()
            self.p.wait(5)
        except Exception:
            pass


FAIL_FAST = {"on": False, "stop": threading.Event(), "dir": None}


def run_pool(prop, specs, jobs, progress=True):
    q = queue.Queue()
    for s in specs:
        q.put(s)
    results = []
    lock = threading.Lock()
    sites = {}

    def loop(idx):
        w = None
        while True:
            if FAIL_FAST["on"] and FAIL_FAST["stop"].is_set():
                break  # --fail-fast: a violation has been replayed, the remaining harnesses are not run
            try:
                spec = q.get_nowait()
            except queue.Empty:
                break
            hseed = (spec.get("params") or {}).get("hashseed", 0) if isinstance(spec.get("params"), dict) else 0
            if w is not None and w.hashseed != hseed:
                w.kill()
                w = None
            if w is None:
                w = Worker(prop, hseed)
                if w.ready is None:
                    res = {"id": spec["id"], "verdict": "error", "cx_message": "worker failed to start",
                           "params": spec.get("params"), "paths": 0, "reached": 0, "z3_queries": 0,
                           "z3_seconds": 0, "wall": 0, "twin": bool(spec.get("twin"))}
                    with lock:
                        results.append(res)
                    w.kill()
                    w = None
                    continue
                with lock:
                    sites.update(w.ready.get("sites", {}))
            wall = float(spec.get("timeout", 60)) * 1.6 + 45
            res = w.run(spec, wall)
            if res is None:
                res = {"id": spec["id"], "verdict": "inconclusive", "cx_message": "worker timeout/crash",
                       "params": spec.get("params"), "paths": 0, "reached": 0, "z3_queries": 0,
                       "z3_seconds": 0, "wall": wall, "twin": bool(spec.get("twin"))}
                w.kill()
                w = None
            if FAIL_FAST["on"] and res.get("verdict") == "refuted" and not res.get("twin") and res.get("fail"):
                path, rep = run_replay(prop, res["params"], res["fail"], FAIL_FAST["dir"], res["id"].replace("/", "_"))
                res["replay"], res["replay_path"] = rep, path
                if rep.get("reproduced"):
                    FAIL_FAST["stop"].set()
            with lock:
                results.append(res)
                if progress:
                    log("  [%d/%d] %-50s %-12s paths=%-5s %.1fs %s" % (
                        len(results), len(specs), res["id"][:50], res["verdict"], res.get("paths"),
                        res.get("wall", 0), (res.get("fail") or {}).get("reason", "")[:90]))
        if w is not None:
            try:
                w.p.stdin.write(json.dumps({"quit": True}) + "\n")
                w.p.stdin.flush()
            except Exception:
                pass
            w.kill()

    threads = [threading.Thread(target=loop, args=(i,)) for i in range(max(1, min(jobs, len(specs))))]
    for t in threads:
        t.start()
    for t in threads:
        t.join()
    return results, sites


def run_replay(prop, params, fail, outdir, rid):
    os.makedirs(outdir, exist_ok=True)
    path = os.path.join(outdir, rid + ".json")
    case = {"property": prop, "harness": rid, "params": params, "model": fail}
    with open(path, "w") as fh:
        json.dump(case, fh, indent=1)
    rep = replay_file(path)
    case["replay"] = rep
    with open(path, "w") as fh:
        json.dump(case, fh, indent=1)
    return path, rep


def replay_file(path):
    env = dict(os.environ)
    env["PYTHONPATH"] = HOME
    try:
        env["PYTHONHASHSEED"] = str((json.load(open(path)).get("params") or {}).get("hashseed", 0))
    except Exception:
        env["PYTHONHASHSEED"] = "0"
    env.pop("MARSCHALL_LAB_GAFTOOLS_VERIF", None)
    try:
        p = subprocess.run([PY, "-m", "vp.replay", path], capture_output=True, text=True, cwd=HOME,
                           env=env, timeout=300)
    except subprocess.TimeoutExpired:
        return {"reproduced": False, "error": "replay timed out"}
    for line in p.stdout.splitlines():
        if line.startswith("VPREPLAY "):
            return json.loads(line[9:])
    return {"reproduced": False, "error": "replay crashed: " + (p.stderr or p.stdout)[-1500:]}


def load_known():
    p = os.path.join(HOME, "known_findings.json")
    if not os.path.exists(p):
        return {"findings": [], "fixed": []}
    return json.load(open(p))


def conformance(prop):
    env = dict(os.environ)
    env["PYTHONPATH"] = HOME
    p = subprocess.run([PY, "-m", "vp.conform", prop], capture_output=True, text=True, cwd=HOME, env=env,
                       timeout=600)
    for line in p.stdout.splitlines():
        if line.startswith("VPCONFORM "):
            return json.loads(line[10:])
    return {"ok": False, "error": (p.stderr or p.stdout)[-2000:]}


def main():
    ap = argparse.ArgumentParser()
    ap.add_argument("prop")
    ap.add_argument("--tier", default=os.environ.get("VERIF_TIER", "quick"))
    ap.add_argument("--jobs", type=int, default=int(os.environ.get("VP_JOBS", "16")))
    ap.add_argument("--only", default=None)
    ap.add_argument("--replay", default=None)
    ap.add_argument("--no-conform", action="store_true")
    ap.add_argument("--list", action="store_true")
    ap.add_argument("--fail-fast", action="store_true", help="stop after the first replayed violation (used by tools/seed_regress.sh; the evidence "
                    "file then covers only what ran)")
    args = ap.parse_args()
    prop = args.prop.upper()
    tier = args.tier if args.tier in ("quick", "thorough") else "quick"
    seed = int(os.environ.get("VERIF_SEED", "0") or 0)
    t0 = time.time()

    if args.replay:
        rep = replay_file(args.replay)
        print(json.dumps(rep, indent=1))
        if rep.get("reproduced"):
            print("VIOLATION property=%s replay=%s" % (prop, args.replay))
            sys.exit(1)
        sys.exit(0)

    sys.path.insert(0, HOME)
    mod = importlib.import_module("vp.props." + prop.lower())
    specs = mod.harnesses(tier)
    if args.only:
        specs = [s for s in specs if args.only in s["id"]]
    if args.list:
        for s in specs:
            print(s["id"], json.dumps(s["params"]))
        return
    twins = [dict(s, id=s["id"] + "#twin", twin=True) for s in specs if s.get("twin")]
    for s in specs:
        s.pop("twin", None)
    allspecs = specs + twins
    random.Random(seed).shuffle(allspecs)
    # longest first inside the shuffled order keeps the tail short
    allspecs.sort(key=lambda s: -float(s.get("timeout", 60)))
    log("[%s] tier=%s harnesses=%d (+%d reachability twins) jobs=%d seed=%d" % (
        prop, tier, len(specs), len(twins), args.jobs, seed))

    conf = {"ok": True, "skipped": True}
    if not args.no_conform:
        conf = conformance(prop)
        log("[%s] twin/stub conformance: %s" % (prop, "ok (%d comparisons)" % conf.get("n", 0) if conf.get("ok") else conf))

    if args.fail_fast:
        FAIL_FAST["on"] = True
        FAIL_FAST["dir"] = os.path.join(EVDIR, "replays", prop)
    results, sites = run_pool(prop, allspecs, args.jobs)
    byid = {r["id"]: r for r in results}

    known = load_known()
    kf = [f for f in known.get("findings", []) if f["property"] == prop]
    violations = []
    knownhits = {}
    harness_errors = []
    inconclusive = []
    discharged = 0
    twin_bad = []
    replay_dir = os.path.join(EVDIR, "replays", prop)
    nrep = 0
    blind_budget = [16]
    for r in results:
        v = r["verdict"]
        if r.get("twin"):
            ok = "POST_FAIL" in (r.get("cx_states") or []) and (r.get("reached", 0) > 0 or r.get("fail") is not None)
            if not ok and v not in ("inconclusive",):
                twin_bad.append(r["id"])
            continue
        if v == "confirmed":
            discharged += 1
        elif v == "refuted":
            nrep += 1
            rid = r["id"].replace("/", "_")
            if "replay" in r and "replay_path" in r:
                path, rep = r["replay_path"], r["replay"]  # already replayed by the pool (--fail-fast)
            else:
                path, rep = run_replay(prop, r["params"], r["fail"], replay_dir, rid)
            r["replay"] = rep
            r["replay_path"] = path
            if rep.get("reproduced"):
                key = rep.get("key", "")
                hit = [f for f in kf if f["key"] == key]
                if hit:
                    knownhits.setdefault(key, (hit[0], path))
                else:
                    violations.append((r, path, rep))
            else:
                harness_errors.append((r["id"], "counterexample did not reproduce: %s / %s" % (
                    r["fail"], rep.get("error") or rep.get("detail"))))
        elif v in ("error", "vacuous", "pre_unsat"):
            harness_errors.append((r["id"], v + ": " + (r.get("cx_message") or "")[:600]))
        else:
            # neither the solver nor the concrete probe on the model decided this obligation (typically the changed code left the
            # modelled subset of the environment).  Last resort: the replay - unmodified code, real files, independent oracle - on
            # up to two argument tuples that satisfy the precondition.  A failure there is a violation like any other; a clean
            # replay leaves the obligation inconclusive.
            found = False
            pargs = ((r.get("probe") or {}).get("args") or [])[:2]
            if blind_budget[0] > 0 and pargs:
                for k, a in enumerate(pargs):
                    blind_budget[0] -= 1
                    fail = {"args": a, "reason": "replay with concrete arguments after the symbolic run and the model probe were inconclusive",
                            "found_by": "replay on real files"}
                    path, rep = run_replay(prop, r["params"], fail, replay_dir, r["id"].replace("/", "_") + ".blind%d" % k)
                    if rep.get("reproduced"):
                        r["fail"] = fail
                        r["replay"] = rep
                        r["replay_path"] = path
                        r["verdict"] = "refuted"
                        key = rep.get("key", "")
                        hit = [f for f in kf if f["key"] == key]
                        if hit:
                            knownhits.setdefault(key, (hit[0], path))
                        else:
                            violations.append((r, path, rep))
                        found = True
                        break
            if not found:
                inconclusive.append({"id": r["id"], "why": (r.get("cx_message") or "")[:200],
                                     "unsupported": r.get("unsupported", [])[:2]})
    if not conf.get("ok"):
        harness_errors.append(("conformance", json.dumps(conf)[:1500]))
    for t in twin_bad:
        harness_errors.append((t, "reachability twin was not refuted: harness may be vacuous"))

    meta = getattr(mod, "META", {})
    nontrivial = [r for r in results if not r.get("twin") and r.get("reached", 0) > 0]
    samples = []
    for r in results:
        if r.get("twin"):
            continue
        if len(samples) < 4 and r.get("sample_paths"):
            samples.append({"harness": r["id"], "params": r.get("params"), "args": r.get("args"),
                            "pre": r.get("pre"), "verdict": r["verdict"],
                            "sample_realised_paths": r.get("sample_paths")[:2]})
    for r, path, rep in violations[:3]:
        samples.append({"harness": r["id"], "violation": r["fail"], "replay": path})
    wall = time.time() - t0
    funcs = []
    try:
        from . import loader

        loader.install("plain")
        for m, names in meta.get("functions", {}).items():
            importlib.import_module(m)
            funcs.extend(loader.function_lines(m, set(names)))
    except Exception as e:  # pragma: no cover
        funcs.append("function listing failed: %r" % (e,))
    ev = {
        "property_id": prop,
        "tier": tier,
        "seed": seed,
        "level": meta.get("level", "other"),
        "coverage": {
            "explanation": meta.get("explanation", "bounded symbolic execution of the real functions "
                                    "(CrossHair + z3); a harness counts only when every feasible path was explored"),
            "obligations": len(specs),
            "discharged": discharged,
            "inconclusive": inconclusive[:40],
            "n_inconclusive": len(inconclusive),
            "refuted_and_replayed": nrep,
            "known_findings_hit": sorted(knownhits),
            "evaluations": sum(r.get("paths", 0) for r in results),
            "distinct_nontrivial": len(nontrivial),
            "rule": "one evaluation = one symbolic execution path through the real code, decided by z3; a harness is "
                    "non-trivial when at least one of its paths reached the final assertion; harnesses are distinct "
                    "by construction (different shape parameters)",
            "samples": samples or [{"note": "no harness reached its assertion"}],
            "exhaustive": False,
            "functions_encoded": funcs,
            "instrumentation_sites_per_module": sites,
            "bounds": meta.get("bounds", {}).get(tier, meta.get("bounds", "")),
            "outside_claim": meta.get("out", []),
            "solver": {"engine": "crosshair-tool 0.0.110 / z3 (wheel)", "queries": sum(r.get("z3_queries", 0) for r in results),
                       "solver_seconds": round(sum(r.get("z3_seconds", 0) for r in results), 2),
                       "unknown_answers": sum(r.get("z3_unknown", 0) for r in results)},
            "cpu_seconds_in_harnesses": round(sum(r.get("wall", 0) for r in results), 1),
            "reachability_twins": {"run": len(twins), "not_refuted": twin_bad},
            "conformance": conf,
            "states": max(1, sum(r.get("paths", 0) for r in results)),
            "transitions": max(1, sum(r.get("z3_queries", 0) for r in results)),
            "traces_validated_against_impl": nrep,
        },
        "assumptions": meta.get("assumptions", []),
        "wall_s": round(wall, 1),
        "violations": len(violations),
    }
    os.makedirs(os.path.join(EVDIR, "replays"), exist_ok=True)
    with open(os.path.join(EVDIR, prop + ".json"), "w") as fh:
        json.dump(ev, fh, indent=1)
    with open(os.path.join(EVDIR, "replays", prop + ".last.json"), "w") as fh:
        json.dump(results, fh, indent=1)

    for key, (f, path) in sorted(knownhits.items()):
        print("KNOWN-FINDING: property=%s %s [%s] replay=%s" % (prop, f["what"], key, path))
    for r, path, rep in violations:
        print("VIOLATION property=%s replay=%s" % (prop, path))
        log("   ", r["id"], r["fail"], rep.get("what"))
    log("[%s] obligations=%d discharged=%d inconclusive=%d violations=%d known=%d harness_errors=%d wall=%.1fs" % (
        prop, len(specs), discharged, len(inconclusive), len(violations), len(knownhits), len(harness_errors), wall))
    for hid, why in harness_errors[:10]:
        log("  HARNESS-ERROR", hid, why[:800])
    if violations:
        sys.exit(1)
    if harness_errors:
        sys.exit(3)
    sys.exit(0)


if __name__ == "__main__":
    main()
