"""Replays a counterexample against the unmodified code of /repo (real files, real CLI entry
points, independent concrete oracle).  python -m vp.replay <case.json>"""
import importlib
import json
import os
import shutil
import sys
import tempfile
import traceback

from . import loader

HOME = os.environ.get("VP_HOME", os.path.dirname(os.path.dirname(os.path.abspath(__file__))))


def main():
    case = json.load(open(sys.argv[1]))
    loader.install("plain")
    mod = importlib.import_module("vp.props." + case["property"].lower())
    os.makedirs(os.path.join(HOME, "work"), exist_ok=True)
    wd = tempfile.mkdtemp(prefix="replay-", dir=os.path.join(HOME, "work"))
    try:
        try:
            rep = mod.replay(case["params"], case["model"], wd)
        except Exception as e:
            rep = {"reproduced": False, "error": "replay raised: " + "".join(
                traceback.format_exception(type(e), e, e.__traceback__))[-2000:]}
    finally:
        shutil.rmtree(wd, ignore_errors=True)
    sys.stdout.flush()
    print("\nVPREPLAY " + json.dumps(rep), flush=True)


if __name__ == "__main__":
    main()
