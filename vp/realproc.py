"""Best-effort reproduction with REAL processes (real multiprocessing.Process / Queue, real pywfa):
usage: realproc.py <kind> <W> <N> <workdir>.  The only interference is a delay of the parent at the point where the
schedule matters (wrapping one_is_alive) or a worker target that dies (os._exit) at a chosen point."""
import json
import os
import sys
import time

sys.path.insert(0, os.environ.get("VP_REPO", "/repo"))


def main():
    kind, W, N, wd = sys.argv[1], int(sys.argv[2]), int(sys.argv[3]), sys.argv[4]
    if kind == "exit-with-live-worker":
        return exit_live(wd)
    import gaftools.cli.realign as R

    gfa = os.path.join(wd, "rp.gfa")
    open(gfa, "w").write("S\ta\tACGTACGTAC\n")
    fa = os.path.join(wd, "rp.fa")
    with open(fa, "w") as fh:
        for i in range(N):
            fh.write(">r%d\nACGTACGTAC\n" % i)
    import pysam

    pysam.faidx(fa)
    gaf = os.path.join(wd, "rp.gaf")
    with open(gaf, "w") as fh:
        for i in range(N):
            fh.write("r%d\t10\t0\t10\t+\t>a\t10\t0\t10\t10\t10\t60\tcg:Z:10=\n" % i)
    out = os.path.join(wd, "rp.out")
    orig_target = R.wfa_alignment
    res = {"attempted": True, "kind": kind}
    if kind.startswith("fault"):
        # the worker delivers everything (records and sentinel) and then dies with a non-zero exit code
        def dying(seq_batch, qu):
            orig_target(seq_batch, qu)
            qu.close()
            qu.join_thread()
            os._exit(3)

        R.wfa_alignment = dying
    else:
        # the worker is slower than the first queue timeout; the parent is delayed between the timeout and the liveness check
        def slow(seq_batch, qu):
            time.sleep(0.8)
            orig_target(seq_batch, qu)

        R.wfa_alignment = slow
        orig_alive = R.one_is_alive

        def delayed(processes):
            deadline = time.time() + 5
            while any(p.is_alive() for p in processes) and time.time() < deadline:
                time.sleep(0.01)
            return orig_alive(processes)

        R.one_is_alive = delayed
    status = "ok"
    try:
        R.run_realign(gaf, gfa, fa, output=out, cores=W)
    except SystemExit as e:
        status = "exit:%s" % (e.code,)
    except BaseException as e:  # noqa
        status = "exc:%s: %s" % (type(e).__name__, e)
    import gc

    gc.collect()
    names = [l.split("\t")[0] for l in open(out)] if os.path.exists(out) else []
    want = ["r%d" % i for i in range(N)]
    if kind.startswith("fault"):
        bad = status == "ok"
    else:
        bad = status != "ok" or names != want
    res.update(status=status, written=names, reproduced=bool(bad))
    print("REALPROC " + json.dumps(res))


def exit_live(wd):
    """2 workers, real batch size: worker 0 kills itself before delivering anything, worker 1 starts late and has a few
    hundred KiB of results.  The command must terminate (with a non-zero status); a hang is the violation."""
    import subprocess

    os.environ.pop("GAFTOOLS_VERIF_BATCH_SIZE", None)
    gfa = os.path.join(wd, "big.gfa")
    seq = "ACGTTGCA" * 8
    open(gfa, "w").write("S\ta\t%s\n" % seq)
    fa = os.path.join(wd, "big.fa")
    gaf = os.path.join(wd, "big.gaf")
    n = 2000
    with open(fa, "w") as f1, open(gaf, "w") as f2:
        for i in range(n):
            f1.write(">r%d\n%s\n" % (i, seq))
            f2.write("r%d\t%d\t0\t%d\t+\t>a\t%d\t0\t%d\t%d\t%d\t60\tzz:Z:%s\tcg:Z:%d=\n" % (i, len(seq), len(seq), len(seq), len(seq), len(seq), len(seq), "x" * 200, len(seq)))
    import pysam

    pysam.faidx(fa)
    child = os.path.join(wd, "child.py")
    open(child, "w").write("""
import os, sys, time, signal
sys.path.insert(0, %r)
import gaftools.cli.realign as R
orig = R.wfa_alignment
def target(batch, qu):
    if batch[0][3] == 0:
        os.kill(os.getpid(), signal.SIGKILL)
    time.sleep(2)
    orig(batch, qu)
R.wfa_alignment = target
R.run_realign(%r, %r, %r, output=%r, cores=2)
""" % (os.environ.get("VP_REPO", "/repo"), gaf, gfa, fa, os.path.join(wd, "big.out")))
    p = subprocess.Popen([sys.executable, child], start_new_session=True, stdout=subprocess.DEVNULL, stderr=subprocess.DEVNULL)
    try:
        rc = p.wait(timeout=40)
        res = {"attempted": True, "kind": "exit-with-live-worker", "status": "exit:%s" % rc, "reproduced": rc == 0}
    except subprocess.TimeoutExpired:
        import signal

        os.killpg(p.pid, signal.SIGKILL)
        res = {"attempted": True, "kind": "exit-with-live-worker", "status": "no termination within 40 s", "reproduced": True}
    print("REALPROC " + json.dumps(res))


if __name__ == "__main__":
    main()
