"""Best-effort reproduction with REAL processes (real multiprocessing.Process / Queue, real pywfa):
usage: realproc.py <kind> <W> <N> <workdir>.  The only interference is a delay of the parent at the point where the
schedule matters (wrapping one_is_alive) or a worker target that dies (os._exit) at a chosen point."""
import json
import os
import sys
import time

sys.path.insert(0, os.environ.get("VP_REPO", "/repo"))


def main():
    kind, W, N, wd = sys.argv[1], int(sys.argv[2]), int(sys.argv[3]), sys.argv[4]
    import gaftools.cli.realign as R

    gfa = os.path.join(wd, "rp.gfa")
    open(gfa, "w").write("S\ta\tACGTACGTAC\n")
    fa = os.path.join(wd, "rp.fa")
    with open(fa, "w") as fh:
        for i in range(N):
            fh.write(">r%d\nACGTACGTAC\n" % i)
    import pysam

    pysam.faidx(fa)
    gaf = os.path.join(wd, "rp.gaf")
    with open(gaf, "w") as fh:
        for i in range(N):
            fh.write("r%d\t10\t0\t10\t+\t>a\t10\t0\t10\t10\t10\t60\tcg:Z:10=\n" % i)
    out = os.path.join(wd, "rp.out")
    orig_target = R.wfa_alignment
    res = {"attempted": True, "kind": kind}
    if kind.startswith("fault"):
        # the worker delivers everything (records and sentinel) and then dies with a non-zero exit code
        def dying(seq_batch, qu):
            orig_target(seq_batch, qu)
            qu.close()
            qu.join_thread()
            os._exit(3)

        R.wfa_alignment = dying
    else:
        # the worker is slower than the first queue timeout; the parent is delayed between the timeout and the liveness check
        def slow(seq_batch, qu):
            time.sleep(0.8)
            orig_target(seq_batch, qu)

        R.wfa_alignment = slow
        orig_alive = R.one_is_alive

        def delayed(processes):
            deadline = time.time() + 5
            while any(p.is_alive() for p in processes) and time.time() < deadline:
                time.sleep(0.01)
            return orig_alive(processes)

        R.one_is_alive = delayed
    status = "ok"
    try:
        R.run_realign(gaf, gfa, fa, output=out, cores=W)
    except SystemExit as e:
        status = "exit:%s" % (e.code,)
    except BaseException as e:  # noqa
        status = "exc:%s: %s" % (type(e).__name__, e)
    import gc

    gc.collect()
    names = [l.split("\t")[0] for l in open(out)] if os.path.exists(out) else []
    want = ["r%d" % i for i in range(N)]
    if kind.startswith("fault"):
        bad = status == "ok"
    else:
        bad = status != "ok" or names != want
    res.update(status=status, written=names, reproduced=bool(bad))
    print("REALPROC " + json.dumps(res))


if __name__ == "__main__":
    main()
