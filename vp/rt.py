"""Runtime support for symbolic execution of gaftools under CrossHair.

FieldStr = text that contains decimal renderings of *symbolic* integers.  A FieldStr is a
tuple of segments, each a literal ``str`` or ``Num(e)`` (standing for ``str(e)``).  It is not
a subclass of ``str``: a C-level string operation on it raises TypeError loudly, and every
operation implemented here either is exact for every value of the embedded integers or raises
``Unsupported`` (which makes the harness inconclusive, never a pass).
"""
import builtins
import re as _re

try:
    from crosshair.tracers import NoTracing
except Exception:  # replay mode runs without crosshair
    class NoTracing:  # type: ignore
        def __enter__(self):
            return self

        def __exit__(self, *a):
            return False


class Unsupported(Exception):
    """The runtime cannot model this operation exactly: harness is inconclusive."""


class LoopBound(Exception):
    """A while loop ran more often than the fuel derived from the input size allows."""


def is_concrete_int(x):
    with NoTracing():
        t = type(x)
        return t is builtins.int or t is builtins.bool


def is_plain_str(x):
    with NoTracing():
        return type(x) is builtins.str


class Num:
    __slots__ = ("v",)

    def __init__(self, v):
        self.v = v

    def __repr__(self):
        return "<num>"


def _norm(segs):
    out = []
    for s in segs:
        if isinstance(s, Num):
            if is_concrete_int(s.v):
                s = builtins.str(builtins.int(s.v))
            else:
                out.append(s)
                continue
        if s == "":
            continue
        if out and not isinstance(out[-1], Num):
            out[-1] = out[-1] + s
        else:
            out.append(s)
    return out


def mk(segs, binary=False):
    segs = _norm(segs)
    if not any(isinstance(s, Num) for s in segs):
        text = "".join(segs)
        return text.encode("utf-8") if binary else text
    return BFieldStr(segs) if binary else FieldStr(segs)


def segs_of(x):
    if isinstance(x, FieldStr):
        return list(x.segs)
    if is_plain_str(x) or isinstance(x, builtins.str):
        return [x]
    raise Unsupported("segs_of %r" % type(x))


def _has_digit(text):
    return any(c.isdigit() for c in text)


def _expand_neg(segs):
    """Replace Num(e) by '-' Num(-e) on the branch e < 0, so that '-' is literal text."""
    out = []
    for s in segs:
        if isinstance(s, Num) and s.v < 0:
            out.append("-")
            out.append(Num(-s.v))
        else:
            out.append(s)
    return _norm(out)


def _canon_int_text(tok):
    """tok is text matched by -?[0-9]+ : the int it is the canonical rendering of, or None."""
    body = tok[1:] if tok.startswith("-") else tok
    if body == "" or not body.isdigit() or not body.isascii():
        return None
    if len(body) > 1 and body[0] == "0":
        return None
    if tok.startswith("-") and body == "0":
        return None
    return builtins.int(tok)


def _separable(segs):
    """True if renderings are delimited: no two Nums adjacent, the literal after a Num does not
    start with a digit."""
    for i, s in enumerate(segs):
        if isinstance(s, Num) and i + 1 < len(segs):
            nxt = segs[i + 1]
            if isinstance(nxt, Num) or nxt[0].isdigit():
                return False
    return True


def _skeleton(segs):
    return "".join(c for s in segs if not isinstance(s, Num) for c in s if not (c.isdigit() or c == "-"))


def _match_literal(segs, text):
    """Parse `text` against the segment shape.  Returns list of required ints, None if it can
    never be equal.  Raises Unsupported when the parse is ambiguous."""
    if not _separable(segs):
        raise Unsupported("ambiguous rendering boundary")
    pos = 0
    vals = []
    for i, s in enumerate(segs):
        if isinstance(s, Num):
            m = _re.compile(r"-?[0-9]+").match(text, pos)
            if m is None:
                return None
            v = _canon_int_text(m.group(0))
            if v is None:
                return None
            vals.append(v)
            pos = m.end()
        else:
            if not text.startswith(s, pos):
                return None
            pos += len(s)
    if pos != len(text):
        return None
    return vals


class FieldStr:
    __slots__ = ("segs",)
    _binary = False

    def __init__(self, segs):
        self.segs = tuple(segs)

    # ---- construction -------------------------------------------------------------------
    def _mk(self, segs):
        return mk(segs, self._binary)

    def __add__(self, o):
        if isinstance(o, FieldStr):
            if o._binary != self._binary:
                raise TypeError("can't concat str to bytes")
            return self._mk(list(self.segs) + list(o.segs))
        if self._binary:
            if isinstance(o, builtins.bytes):
                return self._mk(list(self.segs) + [o.decode("utf-8")])
            raise TypeError("can't concat %s to bytes" % type(o).__name__)
        if isinstance(o, builtins.str):
            return self._mk(list(self.segs) + [o])
        return NotImplemented

    def __radd__(self, o):
        if self._binary:
            if isinstance(o, builtins.bytes):
                return self._mk([o.decode("utf-8")] + list(self.segs))
            raise TypeError("can't concat bytes to %s" % type(o).__name__)
        if isinstance(o, builtins.str):
            return self._mk([o] + list(self.segs))
        return NotImplemented

    # ---- things that cannot be modelled ----------------------------------------------------
    def __hash__(self):
        raise Unsupported("hash of FieldStr")

    def __iter__(self):
        raise Unsupported("iteration over FieldStr")

    def __len__(self):
        raise Unsupported("len of FieldStr")

    def __lt__(self, o):
        raise Unsupported("ordering of FieldStr")

    __gt__ = __le__ = __ge__ = __lt__

    def __str__(self):
        raise Unsupported("str() of FieldStr through the C API")

    def __repr__(self):
        return "%s(%r)" % (type(self).__name__, list(self.segs))

    def __bool__(self):
        return True  # a rendering is never empty

    # ---- comparisons ---------------------------------------------------------------------
    def __eq__(self, o):
        if isinstance(o, FieldStr):
            if o._binary != self._binary:
                return False
            a, b = self.segs, o.segs
            if len(a) == len(b) and all(
                (isinstance(x, Num) and isinstance(y, Num))
                or (not isinstance(x, Num) and not isinstance(y, Num) and x == y)
                for x, y in zip(a, b)
            ):
                if not _separable(a):
                    raise Unsupported("eq of FieldStr with ambiguous boundaries")
                res = True
                for x, y in zip(a, b):
                    if isinstance(x, Num):
                        if not (x.v == y.v):
                            res = False
                return res
            # renderings contribute only digits and '-': if the remaining skeletons differ the
            # texts differ for every value
            if _skeleton(a) != _skeleton(b):
                return False
            raise Unsupported("eq of FieldStr with different shapes %r %r" % (a, b))
        if self._binary:
            if isinstance(o, builtins.bytes):
                o = o.decode("utf-8")
            else:
                return False
        elif not isinstance(o, builtins.str):
            return False
        vals = _match_literal(self.segs, o)
        if vals is None:
            return False
        res = True
        nums = [s for s in self.segs if isinstance(s, Num)]
        for s, v in zip(nums, vals):
            if not (s.v == v):
                res = False
        return res

    def __ne__(self, o):
        return not self.__eq__(o)

    def __contains__(self, ch):
        if self._binary:
            if not isinstance(ch, builtins.bytes):
                raise TypeError("a bytes-like object is required, not 'str'")
            ch = ch.decode("utf-8")
        if _has_digit(ch):
            raise Unsupported("contains with digit")
        segs = self.segs
        if "-" in ch:
            if len(ch) > 1:
                raise Unsupported("contains multi-char with '-'")
            segs = _expand_neg(segs)
        return any((not isinstance(s, Num)) and ch in s for s in segs)

    def startswith(self, p):
        p = self._arg(p)
        first = self.segs[0]
        if isinstance(first, Num):
            if p == "":
                return True
            if p[0].isdigit() or p[0] == "-":
                raise Unsupported("startswith on rendering")
            return False
        if len(p) <= len(first):
            return first.startswith(p)
        if not first.startswith(p[: len(first)]):
            return False
        raise Unsupported("startswith across rendering")

    def endswith(self, p):
        p = self._arg(p)
        last = self.segs[-1]
        if isinstance(last, Num):
            if p == "":
                return True
            if p[-1].isdigit():
                raise Unsupported("endswith on rendering")
            return False
        if len(p) <= len(last):
            return last.endswith(p)
        raise Unsupported("endswith across rendering")

    def isdigit(self):
        ok = True
        for s in self.segs:
            if isinstance(s, Num):
                if s.v < 0:
                    ok = False
            elif not s.isdigit():
                ok = False
        return ok

    # ---- slicing / splitting ---------------------------------------------------------------
    def _arg(self, x):
        if self._binary:
            if isinstance(x, builtins.bytes):
                return x.decode("utf-8")
            raise TypeError("a bytes-like object is required, not '%s'" % type(x).__name__)
        if not isinstance(x, builtins.str):
            raise TypeError("must be str, not %s" % type(x).__name__)
        return x

    def split(self, d=None, maxsplit=-1):
        if d is None:
            raise Unsupported("split on whitespace")
        d = self._arg(d)
        if maxsplit != -1:
            raise Unsupported("split with maxsplit")
        if _has_digit(d) or d == "":
            raise Unsupported("split on digit")
        segs = self.segs
        if "-" in d:
            if d != "-":
                raise Unsupported("split on multi-char with '-'")
            segs = _expand_neg(segs)
        pieces = [[]]
        for s in segs:
            if isinstance(s, Num):
                pieces[-1].append(s)
            else:
                parts = s.split(d)
                pieces[-1].append(parts[0])
                for p in parts[1:]:
                    pieces.append([p])
        # a delimiter longer than one char could straddle a rendering only if it had a digit/'-'
        return [self._mk(p) for p in pieces]

    def rstrip(self, chars=None):
        if chars is not None:
            chars = self._arg(chars)
            if _has_digit(chars) or "-" in chars:
                raise Unsupported("rstrip digits")
        segs = list(self.segs)
        if not isinstance(segs[-1], Num):
            segs[-1] = segs[-1].rstrip(chars)
            if segs[-1] == "" and len(segs) > 1 and not isinstance(segs[-2], Num):
                raise Unsupported("rstrip internal")
        return self._mk(segs)

    def lstrip(self, chars=None):
        if chars is not None:
            chars = self._arg(chars)
            if _has_digit(chars) or "-" in chars:
                raise Unsupported("lstrip digits")
        segs = list(self.segs)
        if not isinstance(segs[0], Num):
            segs[0] = segs[0].lstrip(chars)
        return self._mk(segs)

    def strip(self, chars=None):
        r = self.rstrip(chars)
        if isinstance(r, FieldStr):
            return r.lstrip(chars)
        return r.strip(self._arg(chars).encode() if (chars and self._binary) else chars)

    def replace(self, a, b):
        a = self._arg(a)
        b = self._arg(b)
        if _has_digit(a) or "-" in a or a == "":
            raise Unsupported("replace touching renderings")
        return self._mk([s if isinstance(s, Num) else s.replace(a, b) for s in self.segs])

    def __getitem__(self, idx):
        segs = self.segs
        if isinstance(idx, slice):
            if idx.step not in (None, 1):
                raise Unsupported("strided slice")
            start, stop = idx.start, idx.stop
            if not (start is None or is_concrete_int(start)) or not (
                stop is None or is_concrete_int(stop)
            ):
                raise Unsupported("symbolic slice bound")
            out = list(segs)
            # cut from the left inside the first literal
            if start is not None and start != 0:
                if start < 0 or isinstance(out[0], Num) or start > len(out[0]):
                    raise Unsupported("slice start reaches a rendering")
                out[0] = out[0][start:]
            if stop is not None:
                if stop >= 0:
                    # stop counted from the left: must stay inside the first literal
                    if isinstance(segs[0], Num) or stop > len(segs[0]):
                        raise Unsupported("slice stop reaches a rendering")
                    lo = 0 if start is None else start
                    return self._mk([segs[0][lo:stop]])
                if isinstance(out[-1], Num) or -stop > len(out[-1]):
                    raise Unsupported("negative slice stop reaches a rendering")
                out[-1] = out[-1][:stop]
            return self._mk(out)
        if not is_concrete_int(idx):
            raise Unsupported("symbolic index")
        if idx >= 0:
            if isinstance(segs[0], Num) or idx >= len(segs[0]):
                raise Unsupported("index reaches a rendering")
            return self._mk([segs[0][idx]])
        if isinstance(segs[-1], Num) or -idx > len(segs[-1]):
            raise Unsupported("index reaches a rendering")
        return self._mk([segs[-1][idx]])

    def splitlines_keepends(self):
        """list of lines, each ending in \\n except possibly the last"""
        pieces = [[]]
        for s in self.segs:
            if isinstance(s, Num):
                pieces[-1].append(s)
            else:
                parts = s.split("\n")
                for j, p in enumerate(parts):
                    if j > 0:
                        pieces[-1].append("\n")
                        pieces.append([])
                    pieces[-1].append(p)
        res = [self._mk(p) for p in pieces]
        return [r for r in res if not (isinstance(r, (builtins.str, builtins.bytes)) and len(r) == 0)]

    # ---- str/bytes duality -----------------------------------------------------------------
    def encode(self, *a):
        if self._binary:
            raise AttributeError("'bytes' object has no attribute 'encode'")
        return BFieldStr(self.segs)

    def decode(self, *a):
        raise AttributeError("'str' object has no attribute 'decode'")


class BFieldStr(FieldStr):
    """bytes twin of FieldStr (what a BGZF handle returns)"""

    __slots__ = ()
    _binary = True

    def decode(self, *a):
        return FieldStr(self.segs)

    def encode(self, *a):
        raise AttributeError("'bytes' object has no attribute 'encode'")


# ------------------------------------------------------------------------------------------
# builtins rebinding


def sym_int_fn(x=0, *a):
    if isinstance(x, FieldStr):
        if x._binary:
            raise Unsupported("int(bytes rendering)")
        segs = x.segs
        if len(segs) == 1 and isinstance(segs[0], Num):
            return segs[0].v
        if len(segs) == 2 and segs[0] == "-" and isinstance(segs[1], Num):
            if segs[1].v < 0:
                raise ValueError("invalid literal for int() with base 10: '--…'")
            return -segs[1].v
        # any other mixture of text and rendering: int() would raise unless all digits
        if all(isinstance(s, Num) or s.isdigit() for s in segs):
            raise Unsupported("int of composite digit string")
        for s in segs:
            if isinstance(s, Num):
                continue
            if any((not c.isdigit()) and c not in "+-_ \t\n" for c in s):
                raise ValueError("invalid literal for int() with base 10")
        raise Unsupported("int of composite FieldStr %r" % (x,))
    if isinstance(x, Q):
        raise Unsupported("int of rational")
    return builtins.int(x, *a)


class _Proxy:
    """callable stand-in for a builtin type; attribute access falls through to the type"""

    def __init__(self, fn, real):
        self._fn = fn
        self._real = real

    def __call__(self, *a, **k):
        return self._fn(*a, **k)

    def __getattr__(self, k):
        return getattr(self._real, k)


sym_int = _Proxy(sym_int_fn, builtins.int)


def sym_str_fn(x="", *a):
    if isinstance(x, FieldStr):
        if x._binary:
            raise Unsupported("str(bytes)")
        return x
    if a:
        return builtins.str(x, *a)
    if isinstance(x, builtins.bool) or x is None or isinstance(x, (builtins.str, builtins.float)):
        return builtins.str(x)
    if is_concrete_int(x):
        return builtins.str(x)
    if isinstance(x, builtins.int):
        return mk([Num(x)])
    if isinstance(x, Q):
        raise Unsupported("str of rational")
    return builtins.str(x)


class _StrProxy(_Proxy):
    @staticmethod
    def encode(x, *a):
        if isinstance(x, FieldStr):
            return x.encode()
        return builtins.str.encode(x, *a)


sym_str = _StrProxy(sym_str_fn, builtins.str)

_TYPEMAP = {}


def vp_isinstance(o, t):
    if isinstance(t, tuple):
        return any(vp_isinstance(o, x) for x in t)
    if t is sym_str:
        t = builtins.str
    elif t is sym_int:
        t = builtins.int
    elif t is vp_float:
        t = builtins.float
    elif t is vp_dict:
        t = builtins.dict
    elif t is vp_set:
        t = builtins.set
    if isinstance(o, FieldStr):
        if t is builtins.str:
            return not o._binary
        if t is builtins.bytes:
            return o._binary
        return t is object
    return isinstance(o, t)


def vp_len(x):
    return builtins.len(x)


# ------------------------------------------------------------------------------------------
# formatting

_spec = _re.compile(r"%(?:(%)|([sd])|([-+ #0]*[0-9]*(?:\.[0-9]+)?[a-zA-Z]))")


def _render_arg(a, kind):
    if kind == "d":
        if isinstance(a, (FieldStr, builtins.str)):
            raise TypeError("%d format: a real number is required, not str")
        if isinstance(a, Q):
            raise Unsupported("%d of rational")
        if is_concrete_int(a):
            return [builtins.str(builtins.int(a))]
        if isinstance(a, builtins.float):
            return ["%d" % a]
        if isinstance(a, builtins.int):
            return [Num(a)]
        if a is None:
            raise TypeError("%d format: a real number is required, not NoneType")
        return ["%d" % a]
    if isinstance(a, FieldStr):
        if a._binary:
            raise Unsupported("%s of bytes rendering")
        return list(a.segs)
    if is_plain_str(a):
        return [a]
    if is_concrete_int(a):
        return [builtins.str(a)]
    if isinstance(a, builtins.bool):
        return [builtins.str(builtins.bool(a))]
    if isinstance(a, builtins.int):
        return [Num(a)]
    if isinstance(a, Q):
        raise Unsupported("%s of rational")
    if isinstance(a, (tuple, list)) and any(
        isinstance(x, FieldStr) or (isinstance(x, builtins.int) and not is_concrete_int(x)) for x in a
    ):
        raise Unsupported("%s of container with symbolic content")
    return [builtins.str(a)]


def vp_fmt_(f, args):
    if not isinstance(args, tuple):
        args = (args,)
    out = []
    pos = 0
    i = 0
    for m in _spec.finditer(f):
        out.append(f[pos : m.start()])
        pos = m.end()
        if m.group(1):
            out.append("%")
            continue
        if i >= len(args):
            raise TypeError("not enough arguments for format string")
        a = args[i]
        i += 1
        if m.group(2):
            out.extend(_render_arg(a, m.group(2)))
        else:
            # other conversions (%9.2f, %.3f, ...): only logging uses them
            if isinstance(a, (FieldStr, Q)) or (isinstance(a, builtins.int) and not is_concrete_int(a)):
                raise Unsupported("format spec %r on symbolic value" % m.group(0))
            out.append(m.group(0) % a)
    out.append(f[pos:])
    if i != len(args):
        raise TypeError("not all arguments converted during string formatting")
    return mk(out)


def vp_fstr_(parts):
    out = []
    for p in parts:
        if isinstance(p, tuple):
            val, conv, spec = p
            if conv != -1 or spec:
                if isinstance(val, (FieldStr, Q)) or (
                    isinstance(val, builtins.int) and not is_concrete_int(val)
                ):
                    raise Unsupported("f-string conversion/spec on symbolic value")
                s = val
                if conv == ord("r"):
                    s = repr(val)
                elif conv == ord("s"):
                    s = builtins.str(val)
                elif conv == ord("a"):
                    s = ascii(val)
                out.append(format(s, spec or ""))
            else:
                out.extend(_render_arg(val, "s"))
        else:
            out.append(p)
    return mk(out)


def vp_join_(sep, it):
    items = list(it)
    if not isinstance(sep, builtins.str):
        return sep.join(items)
    out = []
    for j, x in enumerate(items):
        if j:
            out.append(sep)
        if isinstance(x, FieldStr):
            if x._binary:
                raise TypeError("sequence item: expected str instance, bytes found")
            out.extend(x.segs)
        elif isinstance(x, builtins.str):
            out.append(x)
        else:
            raise TypeError("sequence item %d: expected str instance, %s found" % (j, type(x).__name__))
    return mk(out)


def vp_format_(f, *args, **kw):
    if kw:
        raise Unsupported("format with keywords")
    pieces = _re.split(r"(\{\}|\{\{|\}\})", f)
    out = []
    i = 0
    for p in pieces:
        if p == "{}":
            if i >= len(args):
                raise IndexError("Replacement index out of range")
            out.extend(_render_arg(args[i], "s"))
            i += 1
        elif p == "{{":
            out.append("{")
        elif p == "}}":
            out.append("}")
        else:
            if "{" in p or "}" in p:
                raise Unsupported("format spec %r" % p)
            out.append(p)
    return mk(out)


# ------------------------------------------------------------------------------------------
# regular expressions over FieldStr

PUA0 = 0xE000


def _pattern_is_digit_free(pat):
    """conservative: the pattern consists of literal non-digit characters, groups, alternation
    and negated/positive classes of non-digit chars only"""
    if isinstance(pat, builtins.bytes):
        return False
    # allowed syntax: literals, ( ) | and classes [..]; reject anything else
    i = 0
    n = len(pat)
    while i < n:
        c = pat[i]
        if c.isdigit() or c in ".\\^$*+?{}":
            return False
        if c == "[":
            return False
        i += 1
    return True


class ReProxy:
    """`re` for modules under analysis.  Plain strings go to the real module.  A FieldStr is
    accepted only by split() with a pattern that cannot match inside or next to a rendering
    (literal non-digit, non '-' characters, groups, alternation): renderings are replaced by
    private-use code points, the real re runs, and the pieces are mapped back."""

    def __getattr__(self, k):
        return getattr(_re, k)

    @staticmethod
    def _enc(s):
        text = ""
        table = {}
        for seg in s.segs:
            if isinstance(seg, Num):
                ch = chr(PUA0 + len(table))
                table[ch] = seg
                text += ch
            else:
                text += seg
        return text, table

    @staticmethod
    def _dec(piece, table):
        if piece is None:
            return None
        segs = []
        cur = ""
        for c in piece:
            if c in table:
                segs.append(cur)
                cur = ""
                segs.append(table[c])
            else:
                cur += c
        segs.append(cur)
        return mk(segs)

    def split(self, pat, s, *a, **k):
        if not isinstance(s, FieldStr):
            return _re.split(pat, s, *a, **k)
        if s._binary:
            raise TypeError("cannot use a string pattern on a bytes-like object")
        if not _pattern_is_digit_free(pat) or "-" in pat:
            raise Unsupported("re.split pattern %r may match a rendering" % (pat,))
        text, table = self._enc(s)
        return [self._dec(p, table) for p in _re.split(pat, text, *a, **k)]

    def _plain(self, name, pat, s, *a, **k):
        if isinstance(s, FieldStr):
            raise Unsupported("re.%s on FieldStr" % name)
        return getattr(_re, name)(pat, s, *a, **k)

    def match(self, pat, s, *a, **k):
        return self._plain("match", pat, s, *a, **k)

    def fullmatch(self, pat, s, *a, **k):
        return self._plain("fullmatch", pat, s, *a, **k)

    def search(self, pat, s, *a, **k):
        return self._plain("search", pat, s, *a, **k)

    def findall(self, pat, s, *a, **k):
        return self._plain("findall", pat, s, *a, **k)


re_proxy = ReProxy()


# ------------------------------------------------------------------------------------------
# exact rationals instead of floats (stat.py)


class Q:
    """n/d with (possibly symbolic) integer numerator and concrete positive denominator"""

    __slots__ = ("n", "d")

    def __init__(self, n, d=1):
        if isinstance(n, Q):
            n, d = n.n, n.d * d
        elif isinstance(n, builtins.float):
            if n != builtins.int(n):
                raise Unsupported("non-integral float constant")
            n = builtins.int(n)
        self.n = n
        self.d = d

    @staticmethod
    def of(x):
        return x if isinstance(x, Q) else Q(x)

    def __truediv__(self, o):
        if isinstance(o, Q):
            raise Unsupported("rational / rational")
        if not is_concrete_int(o):
            if o == 0:
                raise ZeroDivisionError("division by zero")
            raise Unsupported("division by a symbolic value")
        if o == 0:
            raise ZeroDivisionError("float division by zero")
        if o < 0:
            return Q(-self.n, self.d * -o)
        return Q(self.n, self.d * o)

    def __add__(self, o):
        o = Q.of(o)
        return Q(self.n * o.d + o.n * self.d, self.d * o.d)

    __radd__ = __add__

    def __sub__(self, o):
        o = Q.of(o)
        return Q(self.n * o.d - o.n * self.d, self.d * o.d)

    def __lt__(self, o):
        o = Q.of(o)
        return self.n * o.d < o.n * self.d

    def __le__(self, o):
        o = Q.of(o)
        return self.n * o.d <= o.n * self.d

    def __gt__(self, o):
        o = Q.of(o)
        return self.n * o.d > o.n * self.d

    def __ge__(self, o):
        o = Q.of(o)
        return self.n * o.d >= o.n * self.d

    def __eq__(self, o):
        if not isinstance(o, (Q, builtins.int, builtins.float)):
            return False
        o = Q.of(o)
        return self.n * o.d == o.n * self.d

    def __ne__(self, o):
        return not self.__eq__(o)

    def __hash__(self):
        raise Unsupported("hash of rational")

    def __repr__(self):
        return "Q(%r/%r)" % (self.n, self.d)


def vp_float_fn(x=0.0):
    if isinstance(x, Q):
        return x
    if isinstance(x, builtins.float):
        return x
    if is_concrete_int(x):
        return builtins.float(x)
    if isinstance(x, builtins.int):
        return Q(x)
    if isinstance(x, FieldStr):
        raise Unsupported("float of FieldStr")
    return builtins.float(x)


vp_float = _Proxy(vp_float_fn, builtins.float)

ROUNDS = []


def vp_round(x, nd=None):
    if isinstance(x, Q):
        ROUNDS.append((x, nd))
        return RoundedQ(x, nd)
    if nd is None:
        return builtins.round(x)
    return builtins.round(x, nd)


class RoundedQ:
    """round(q, nd): the printed figure; the harness compares the exact argument"""

    def __init__(self, q, nd):
        self.q = q
        self.nd = nd


def vp_div_(a, b):
    ca = isinstance(a, builtins.float) or is_concrete_int(a)
    cb = isinstance(b, builtins.float) or is_concrete_int(b)
    if ca and cb:
        return a / b
    if isinstance(a, builtins.float):
        if a == builtins.int(a):
            a = builtins.int(a)
        else:
            raise Unsupported("non-integral float / symbolic")
    if isinstance(b, (Q, builtins.float)):
        raise Unsupported("division by rational")
    return Q.of(a) / b


# ------------------------------------------------------------------------------------------
# loop fuel

SAMPLES = []  # a harness may describe explored cases here (shown as samples in the evidence file)
EXTRA = {}  # a harness may leave details of the failing path here (e.g. the schedule); stored with the model

FUEL = [0, 10**9]


def set_fuel(limit):
    FUEL[0] = 0
    FUEL[1] = limit


def vp_tick_():
    FUEL[0] += 1
    if FUEL[0] > FUEL[1]:
        raise LoopBound("while loop exceeded %d iterations" % FUEL[1])


def vp_dict_fn(*a, **k):
    """real dict (CrossHair's replacement reorders keys on overwrite)"""
    d = {}
    d.update(*a, **k)
    return d


vp_dict = _Proxy(vp_dict_fn, builtins.dict)


def vp_set_fn(*a):
    """real set: iteration order is the hash order a real run with this PYTHONHASHSEED has"""
    if a:
        items = list(a[0])
        for x in items:
            if isinstance(x, builtins.int) and not is_concrete_int(x):
                # symbolic members cannot be hashed: CrossHair's equality-based set
                return builtins.set(items)
    else:
        items = []
    s = {0}
    s.clear()
    for x in items:
        s.add(x)
    return s


vp_set = _Proxy(vp_set_fn, builtins.set)


CACHES = []  # memo tables of functions decorated with functools.lru_cache / cache in the analysed modules


def vp_cache_(*dargs, **dkw):
    """stands in for functools.lru_cache / functools.cache in the analysed modules.  CrossHair switches the real lru_cache off while it
    traces, which would hide the memo from the analysis; this one keeps it, for the lifetime of one execution (one process)."""
    def deco(fn):
        table = {}
        CACHES.append(table)

        def wrapper(*a, **k):
            plain = all(type(x) in (builtins.str, builtins.int, builtins.bool, builtins.bytes, type(None), builtins.float) for x in a) and not k
            if not plain:
                return fn(*a, **k)
            if a in table:
                return table[a]
            r = fn(*a, **k)
            table[a] = r
            return r

        wrapper.__name__ = getattr(fn, "__name__", "cached")
        wrapper.__wrapped__ = fn
        wrapper.cache_clear = table.clear
        return wrapper

    if len(dargs) == 1 and callable(dargs[0]) and not dkw:
        return deco(dargs[0])
    return deco


def clear_caches():
    for t in CACHES:
        t.clear()


INJECT = {
    "vp_cache_": vp_cache_,
    "vp_fmt_": vp_fmt_,
    "vp_fstr_": vp_fstr_,
    "vp_join_": vp_join_,
    "vp_format_": vp_format_,
    "vp_div_": vp_div_,
    "vp_tick_": vp_tick_,
    "int": sym_int,
    "str": sym_str,
    "float": vp_float,
    "round": vp_round,
    "isinstance": vp_isinstance,
    "dict": vp_dict,
    "set": vp_set,
}
