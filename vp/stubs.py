"""Environment model: in-memory file system with opaque offset cookies, pickle, os, gzip, BGZF,
clock, loggers, and factories that hand pre-built graphs / record readers to the CLI modules.
Every stub here is part of the claim (DESIGN §3.2)."""
import builtins
import os as _os
import sys as _sys

from . import rt
from .rt import FieldStr, BFieldStr, Unsupported


class HarnessFailure(Exception):
    """The code under analysis used the environment in a way the real environment would punish
    (seek to a bogus offset, compressed file read as text, ...): reported as a failing outcome."""


class MFile:
    def __init__(self, kind, lines, cookies=None):
        assert kind in ("text", "bgzf", "gzip")
        self.kind = kind
        self.lines = list(lines)  # each ends with "\n" (possibly FieldStr)
        self.cookies = cookies  # len(lines)+1 strictly increasing opaque ints, or None


class LiveMFile:
    """what a file being written holds right now (gaftools often never closes its writers)"""

    cookies = None

    def __init__(self, writer):
        self.w = writer
        self.kind = writer.kind

    @property
    def lines(self):
        return self.w.lines()


class Env:
    def __init__(self):
        self.files = {}
        self.pickles = {}
        self.graphs = {}  # path -> callable returning a GFA object
        self.gaf_records = {}  # path -> list of (cookie, callable returning Alignment)
        self.writer_cookies = {}  # path -> list of cookies for tell() on a writer
        self.stdout = Writer(self, "<stdout>", False)
        self.log = []
        self.opened = []
        self.removed = []

    def text_of(self, path):
        """lines written to / stored at path"""
        return list(self.files[path].lines)


ENV = [None]


def env():
    return ENV[0]


def reset():
    ENV[0] = Env()
    try:
        from . import loader

        loader.restore_globals()
        rt.clear_caches()
    except Exception:  # pragma: no cover
        pass
    return ENV[0]


def _split_chunks(chunks, binary):
    if not chunks:
        return []
    segs = []
    for c in chunks:
        if isinstance(c, FieldStr):
            segs.extend(c.segs)
        elif isinstance(c, builtins.bytes):
            segs.append(c.decode("utf-8"))
        else:
            segs.append(c)
    whole = rt.mk(segs)
    if isinstance(whole, FieldStr):
        return whole.splitlines_keepends()
    # a file is cut into lines at "\n" only (str.splitlines would also cut at VT, FF, FS, GS, RS, NEL, LS, PS)
    parts = whole.split("\n")
    out = [p + "\n" for p in parts[:-1]]
    if parts[-1] != "":
        out.append(parts[-1])
    return out


class Reader:
    def __init__(self, e, path, mf, binary):
        self.e = e
        self.path = path
        self.name = path
        self.mf = mf
        self.binary = binary
        self.pos = 0
        self.closed = False

    def _out(self, line):
        if self.mf.kind == "bgzf" and self.binary:
            # pysam's BGZFile.readline() hands out the line WITHOUT its terminator (observed on the real library)
            line = line.rstrip("\n") if not isinstance(line, FieldStr) else line.rstrip("\n")
            if isinstance(line, builtins.str) and line == "":
                line = "\n"  # an empty line must not look like end of file
        if not self.binary:
            return line
        if isinstance(line, FieldStr):
            return BFieldStr(line.segs)
        return line.encode("utf-8")

    def tell(self):
        if self.mf.cookies is None:
            raise Unsupported("tell() on a model file without cookies: %s" % self.path)
        return self.mf.cookies[self.pos]

    def readline(self):
        if self.pos >= len(self.mf.lines):
            return b"" if self.binary else ""
        line = self.mf.lines[self.pos]
        self.pos += 1
        return self._out(line)

    def seek(self, c, whence=0):
        if self.mf.cookies is None:
            raise Unsupported("seek() on a model file without cookies")
        for i in range(len(self.mf.cookies)):
            if self.mf.cookies[i] == c:
                self.pos = i
                return c
        raise HarnessFailure("seek to an offset that is not the start of a record")

    def __iter__(self):
        return self

    def __next__(self):
        line = self.readline()
        if line == "" or line == b"":
            raise StopIteration
        return line

    def read(self, n=-1):
        raise Unsupported("read() on a model text file")

    def close(self):
        self.closed = True

    def __enter__(self):
        return self

    def __exit__(self, *a):
        self.close()
        return False


class GzipSeqReader(Reader):
    def tell(self):
        raise HarnessFailure("tell() on a gzip.open() handle: its offsets are not the BGZF virtual offsets stored in gaftools' indexes")

    def seek(self, c, whence=0):
        raise HarnessFailure("seek() on a gzip.open() handle with an index offset: BGZF virtual offsets are not gzip stream offsets "
                             "(they only coincide inside the first BGZF block)")


class BinReader:
    """open(path, 'rb'): magic sniffing and pickle.load only"""

    def __init__(self, e, path):
        self.e = e
        self.path = path
        self.name = path

    def read(self, n=-1):
        mf = self.e.files.get(self.path)
        if mf is None:
            raise Unsupported("binary read of a non-text object")
        if mf.kind in ("bgzf", "gzip"):
            return b"\x1f\x8b"[: n if n >= 0 else 2]
        if not mf.lines:
            return b""
        first = mf.lines[0]
        if isinstance(first, FieldStr):
            seg = first.segs[0]
            if isinstance(seg, rt.Num) or len(seg) < n:
                raise Unsupported("magic sniffing reaches a rendering")
            return seg[:n].encode("utf-8")
        return first.encode("utf-8")[:n]

    def close(self):
        pass

    def __enter__(self):
        return self

    def __exit__(self, *a):
        return False


WRITE_LEN = [None]


class SymLen:
    """return value of write() for text that contains renderings of symbolic integers: its length is unknown; any use of it
    (offset arithmetic instead of tell()) is reported, ignoring it is fine"""

    def _bad(self, *a):
        raise HarnessFailure("the number of characters returned by write() is used for arithmetic (offsets must come from tell())")

    __add__ = __radd__ = __iadd__ = __sub__ = __rsub__ = __int__ = __index__ = __lt__ = __gt__ = __le__ = __ge__ = _bad


class Writer:
    def __init__(self, e, path, binary, append_to=None, kind="text"):
        self.e = e
        self.path = path
        self.name = path
        self.binary = binary
        self.kind = kind
        self.chunks = []
        self.records = []  # print() argument tuples
        self.nwrites = 0
        self.closed = False
        self.prefix = append_to or []
        if path != "<stdout>":
            e.files[path] = LiveMFile(self)

    def write(self, s):
        if self.closed:
            raise ValueError("I/O operation on closed file.")
        if self.binary:
            if isinstance(s, FieldStr):
                if not s._binary:
                    raise TypeError("a bytes-like object is required, not 'str'")
            elif not isinstance(s, (builtins.bytes, bytearray, memoryview)):
                raise TypeError("a bytes-like object is required, not '%s'" % type(s).__name__)
        else:
            if isinstance(s, FieldStr):
                if s._binary:
                    raise TypeError("write() argument must be str, not bytes")
            elif not isinstance(s, builtins.str):
                raise TypeError("write() argument must be str, not %s" % type(s).__name__)
        self.chunks.append(s)
        self.nwrites += 1
        # number of characters / bytes written, as the real handles report it
        if isinstance(s, FieldStr):
            raise_len = WRITE_LEN[0]
            if raise_len is None:
                return SymLen()
            return raise_len
        return len(s)

    def tell(self):
        ck = self.e.writer_cookies.get(self.path)
        if ck is None:
            raise Unsupported("tell() on a writer without cookies: %s" % self.path)
        if self.nwrites >= len(ck):
            raise Unsupported("writer cookie list too short")
        return ck[self.nwrites]

    def lines(self):
        return list(self.prefix) + _split_chunks(self.chunks, self.binary)

    def flush(self):
        pass

    def close(self):
        if self.closed:
            return
        self.closed = True
        if self.path != "<stdout>":
            self.e.files[self.path] = MFile(self.kind, self.lines(), None)

    def __enter__(self):
        return self

    def __exit__(self, *a):
        self.close()
        return False


def vp_open(path, mode="r", *a, **k):
    e = env()
    if not isinstance(path, builtins.str):
        raise TypeError("expected str, bytes or os.PathLike object, not %s" % type(path).__name__)
    e.opened.append((path, mode))
    m = mode.replace("t", "")
    if m in ("r",):
        mf = e.files.get(path)
        if mf is None:
            raise FileNotFoundError(2, "No such file or directory: %r" % path)
        if mf.kind != "text":
            raise HarnessFailure("compressed file %s opened as plain text" % path)
        return Reader(e, path, mf, False)
    if m == "rb":
        if path not in e.files and path not in e.pickles:
            raise FileNotFoundError(2, "No such file or directory: %r" % path)
        return BinReader(e, path)
    if m in ("w", "w+"):
        return Writer(e, path, False)
    if m == "a":
        prev = e.files.get(path)
        return Writer(e, path, False, append_to=(prev.lines if prev else []))
    if m == "wb":
        return Writer(e, path, True)
    raise Unsupported("open mode %r" % mode)


class _Bgzf:
    @staticmethod
    def BGZFile(path, mode="rb", *a, **k):
        e = env()
        e.opened.append((path, "bgzf:" + mode))
        if mode in ("rb", "r"):
            mf = e.files.get(path)
            if mf is None:
                raise FileNotFoundError(2, "No such file or directory: %r" % path)
            if mf.kind != "bgzf":
                raise HarnessFailure("BGZFile opened on a file that is not BGZF: %s" % path)
            return Reader(e, path, mf, True)
        if mode in ("wb", "w"):
            return Writer(e, path, True, kind="bgzf")
        raise Unsupported("BGZFile mode %r" % mode)


class _Gzip:
    @staticmethod
    def open(path, mode="rb", *a, **k):
        e = env()
        e.opened.append((path, "gzip:" + mode))
        mf = e.files.get(path)
        if mf is None:
            raise FileNotFoundError(2, "No such file or directory: %r" % path)
        if mf.kind == "text":
            raise HarnessFailure("gzip.open on a plain-text file %s (BadGzipFile)" % path)
        if mode == "rt":
            return Reader(e, path, MFile("text", mf.lines, None), False)
        if mode in ("rb", "r"):
            # sequential reading works (BGZF is valid multi-member gzip) but offsets of a gzip stream are positions in the
            # UNCOMPRESSED data, not BGZF virtual offsets: tell()/seek() on this handle are a different coordinate system
            return GzipSeqReader(e, path, MFile("gzip", mf.lines, None), True)
        raise Unsupported("gzip mode %r" % mode)


class _Pickle:
    HIGHEST_PROTOCOL = 5
    DEFAULT_PROTOCOL = 4

    @staticmethod
    def dump(obj, fh, protocol=None, **k):
        if not isinstance(fh, Writer) or not fh.binary:
            raise TypeError("file must have a 'write' attribute accepting bytes")
        env().pickles[fh.path] = obj

    @staticmethod
    def load(fh, **k):
        e = env()
        if fh.path not in e.pickles:
            raise HarnessFailure("pickle.load of %s which holds no pickle" % fh.path)
        return e.pickles[fh.path]


class _OsPath:
    sep = "/"

    def __getattr__(self, k):
        return getattr(_os.path, k)

    @staticmethod
    def exists(p):
        e = env()
        return p in e.files or p in e.pickles or p in e.graphs

    @staticmethod
    def isdir(p):
        return True

    @staticmethod
    def isfile(p):
        return _OsPath.exists(p)


class _Os:
    sep = "/"
    path = _OsPath()

    def __getattr__(self, k):
        return getattr(_os, k)

    @staticmethod
    def makedirs(p, *a, **k):
        pass

    @staticmethod
    def remove(p):
        e = env()
        if p not in e.files:
            raise FileNotFoundError(2, "No such file or directory: %r" % p)
        del e.files[p]
        e.removed.append(p)


class _Sys:
    """sys with stdout redirected into the model (gaftools writes results to sys.stdout)"""

    def __getattr__(self, k):
        return getattr(_sys, k)

    @property
    def stdout(self):
        return env().stdout


class _Time:
    @staticmethod
    def perf_counter():
        return 0.0

    @staticmethod
    def time():
        return 0.0

    @staticmethod
    def sleep(x):
        pass


class _Ctx:
    def __enter__(self):
        return None

    def __exit__(self, *a):
        return False


class NullTimer:
    def __init__(self, *a):
        pass

    def start(self, s):
        pass

    def stop(self, s):
        return 0

    def elapsed(self, s):
        return 0

    def sum(self):
        return 0

    def total(self):
        return 0

    def __call__(self, s):
        return _Ctx()

    def iterate(self, stage, it):
        return it


class NullLogger:
    def __init__(self, name=None):
        self.name = name

    def _log(self, level, a):
        env().log.append((level, a[0] if a else ""))

    def info(self, *a, **k):
        pass

    def debug(self, *a, **k):
        pass

    def warning(self, *a, **k):
        self._log("warning", a)

    def error(self, *a, **k):
        self._log("error", a)

    def critical(self, *a, **k):
        self._log("critical", a)


class _Logging(NullLogger):
    def getLogger(self, name=None):
        return NullLogger(name)


def vp_print(*args, sep=" ", end="\n", file=None, flush=False):
    e = env()
    w = file
    if w is None or w is _sys.stdout or w is _sys.__stdout__:
        w = e.stdout
    if not isinstance(w, Writer):
        if hasattr(w, "vp_print"):
            w.vp_print(args)
            return
        raise Unsupported("print to %r" % (w,))
    w.records.append(args)
    if any(isinstance(a, (rt.Q, rt.RoundedQ)) for a in args):
        w.write("<rational>" + end)
        return
    segs = []
    for i, a in enumerate(args):
        if i:
            segs.append(sep)
        if hasattr(a, "__class__") and a.__class__.__name__ == "Alignment" and hasattr(a, "query_name"):
            a = a.__str__()
        segs.extend(rt._render_arg(a, "s"))
    segs.append(end)
    w.write(rt.mk(segs))


def noop(*a, **k):
    return None


class StubGAF:
    """Stand-in for gaftools.gaf.GAF on paths for which the harness registered records."""

    def __init__(self, path):
        e = env()
        self.path = path
        self.recs = e.gaf_records[path]
        mf = e.files.get(path)
        self.gz_flag = bool(mf is not None and mf.kind != "text")
        self.file = Reader(e, path, mf, self.gz_flag) if mf is not None else None

    def read_file(self):
        for cookie, make in self.recs:
            yield make()

    def read_line(self, offset):
        for cookie, make in self.recs:
            if cookie == offset:
                return make()
        raise HarnessFailure("read_line at an offset that is not the start of a record")

    def close(self):
        pass


def gaf_factory(path):
    e = env()
    if path in e.gaf_records:
        return StubGAF(path)
    import gaftools.gaf as G

    return G.GAF(path)


def gfa_factory(graph_file=None, low_memory=False):
    import gaftools.gfa as G

    if graph_file is None:
        return G.GFA()
    e = env()
    if graph_file in e.graphs:
        return e.graphs[graph_file](low_memory)
    return G.GFA(graph_file, low_memory)


ENV[0] = Env()

PRE_INJECT = {"open": vp_open, "print": vp_print}

_BY_NAME = {
    "re": lambda old: rt.re_proxy,
    "StageTimer": lambda old: NullTimer,
    "timers": lambda old: NullTimer(),
    "logger": lambda old: NullLogger(),
    "logging": lambda old: _Logging(),
    "log_memory_usage": lambda old: noop,
    "pickle": lambda old: _Pickle,
    "pkl": lambda old: _Pickle,
    "libcbgzf": lambda old: _Bgzf,
    "gzip": lambda old: _Gzip,
    "os": lambda old: _Os(),
    "time": lambda old: _Time,
    "sys": lambda old: _Sys(),
}

REBOUND = {}


def rebind_module(module):
    name = module.__name__
    done = []
    for k, f in _BY_NAME.items():
        if k in module.__dict__:
            module.__dict__[k] = f(module.__dict__[k])
            done.append(k)
    if name != "gaftools.gaf" and "GAF" in module.__dict__:
        module.__dict__["GAF"] = gaf_factory
        done.append("GAF")
    if name != "gaftools.gfa" and "GFA" in module.__dict__:
        module.__dict__["GFA"] = gfa_factory
        done.append("GFA")
    REBOUND[name] = done + list(PRE_INJECT)
