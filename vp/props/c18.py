"""C18 — order_gfa isolates components it cannot order."""
import itertools
import os

from .. import rt, stubs
from ..engine import Harness
from . import orderfam as F

ID = "C18"
setup = F.setup

META = {
    "level": "other",
    "functions": {"gaftools.cli.order_gfa": ["run_order_gfa", "decompose_and_order", "name_comps"], "gaftools.gfa": ["GFA.biccs", "GFA.write_gfa"]},
    "explanation": "Bounded symbolic execution (CrossHair/z3) of the real run_order_gfa on 2-3 chromosome graphs in which a chosen "
    "subset of components is not chain-shaped (branching tip of one or two nodes - the two-node tip makes a non-reference node an articulation point; three articulation points on one cycle) at every position of "
    "--chromosome_order; reference node lengths (SO) are symbolic.  Oracle: the command returns normally; no GFA/CSV file and "
    "no BO/NO tag exists for a skipped component; a warning names it; every other requested chromosome has exactly the tags, "
    "GFA and CSV lines it gets when the same command is run, in the same execution, with the skipped chromosome removed from the "
    "request.",
    "bounds": {"quick": "3 chromosomes, 1-2 of them non-chain (2 kinds), all 6 request orders", "thorough": "adds --by-chrom false/true x hash seeds"},
    "out": ["components joined through a haplotype node (they are one component, named by majority vote, and the other name is then "
            "rejected as unknown before any ordering starts - documented behaviour of --chromosome_order)", "more than 3 chromosomes"],
    "assumptions": ["graph object filled as read_graph fills it", "model file system for the outputs"],
}


def harnesses(tier):
    hs = []
    orders = list(itertools.permutations(["chr1", "chr2", "chr3"]))
    cfgs = [({"chr2": "tip"},), ({"chr2": "tricycle"},), ({"chr1": "tip", "chr3": "tricycle"},), ({"chr1": "tricycle"},), ({"chr3": "tip"},),
            ({"chr2": "tip2"},), ({"chr1": "tip2", "chr3": "tip"},)]
    i = 0
    for (bad,) in cfgs:
        for od in orders:
            for by in ((True, False) if tier == "thorough" else (i % 2 == 0,)):
                hs.append({"id": "skip/%s/%s/%s" % ("+".join("%s-%s" % kv for kv in sorted(bad.items())), ",".join(od), "by" if by else "complete"),
                           "params": {"bad": bad, "order": list(od), "by_chrom": by, "hashseed": i % 2}, "timeout": 900, "twin": i == 0})
                i += 1
    for bad, od in (({"chr2": "tip"}, ["chr2"]), ({"chr1": "tricycle", "chr3": "tip"}, ["chr3", "chr1"]), ({"chr2": "tricycle"}, ["chr2"])):
        for by in (True, False):
            hs.append({"id": "allskipped/%s/%s/%s" % ("+".join("%s-%s" % kv for kv in sorted(bad.items())), ",".join(od), "by" if by else "complete"),
                       "params": {"bad": bad, "order": od, "by_chrom": by, "hashseed": 0}, "timeout": 600})
    return hs


KINDS = {"chr1": ["snp", "del"], "chr2": ["inv"], "chr3": ["ins"]}


def make_spec(bad):
    spec = F.Spec()
    for c in ("chr1", "chr2", "chr3"):
        F.build_chain(spec, c, KINDS[c], tip_start=True, tip_end=True, naming=0, extra=bad.get(c))
    return spec


def run_once(spec, so, order, by_chrom):
    O = F.M["O"]
    e = stubs.reset()
    g = F.direct_graph(spec, so)
    e.graphs["in.gfa"] = lambda low: g
    O.run_order_gfa("in.gfa", "out", by_chrom, chromosome_order=",".join(order), with_sequence=False)
    tags = {n: (g.nodes[n].tags.get("BO"), g.nodes[n].tags.get("NO")) for n in spec.order}
    files = {p: list(f.lines) for p, f in e.files.items() if p.startswith("out/")}
    return tags, files, list(e.log)


def build(params):
    bad = params["bad"]
    order = params["order"]
    spec = make_spec(bad)
    nrefs = {c: F.n_refs(spec, c) for c in ("chr1", "chr2", "chr3")}
    args = []
    pre = []
    for c in ("chr1", "chr2", "chr3"):
        for i in range(nrefs[c]):
            args.append(("l%s_%d" % (c[-1], i), "int"))
            pre.append("l%s_%d >= 1" % (c[-1], i))

    def case(*a):
        so = {}
        pos = 0
        for c in ("chr1", "chr2", "chr3"):
            so.update(F.so_layout(spec, c, a[pos:pos + nrefs[c]], 0))
            pos += nrefs[c]
        tags, files, log = run_once(spec, so, order, params["by_chrom"])
        good = [c for c in order if c not in bad]
        if good:
            tags2, files2, log2 = run_once(spec, so, good, params["by_chrom"])
        else:
            # nothing orderable was requested: no node is tagged; the merged mode still writes its (empty) complete files
            tags2 = {n: (None, None) for n in spec.order}
            files2 = {} if params["by_chrom"] else {"out/in-complete.gfa": [], "out/in-complete.csv": []}
        for c in bad:
            for n in spec.chroms[c]:
                if tags[n] != (None, None):
                    return "skipped chromosome %s still got BO/NO tags" % c
            for p in files:
                if ("-%s." % c) in p:
                    return "a file was written for the skipped chromosome %s" % c
            if not any(c in str(m) for lvl, m in log if lvl == "warning"):
                return "skipped chromosome %s was not reported" % c
        for n in spec.order:
            t1, t2 = tags[n], tags2[n]
            if (t1[0] is None) != (t2[0] is None):
                return "node %s tagged in one run only" % n
            if t1[0] is not None and not (t1[0][1] == t2[0][1] and t1[1][1] == t2[1][1]):
                return "tags of %s differ from the run without the skipped chromosome" % n
        if sorted(files) != sorted(files2):
            return "files %r, without the skipped chromosome %r" % (sorted(files), sorted(files2))
        for p in files:
            if len(files[p]) != len(files2[p]):
                return "file %s differs from the run without the skipped chromosome" % p
            for x, y in zip(files[p], files2[p]):
                if not (x == y):
                    return "file %s differs from the run without the skipped chromosome" % p
        return None

    return Harness(args, pre, case, fuel=1500)


def replay(params, model, wd):
    import gaftools.cli.order_gfa as O

    bad = params["bad"]
    order = params["order"]
    spec = make_spec(bad)
    a = model["args"]
    so = {}
    pos = 0
    for c in ("chr1", "chr2", "chr3"):
        n = F.n_refs(spec, c)
        so.update(F.so_layout(spec, c, a[pos:pos + n], 0))
        pos += n
    p = os.path.join(wd, "in.gfa")
    open(p, "w").write("".join(F.gfa_text(spec, so, with_seq=False)))

    def run(od, req):
        err = None
        try:
            O.run_order_gfa(p, od, params["by_chrom"], chromosome_order=",".join(req), with_sequence=False)
        except BaseException as e:  # noqa
            err = "%s: %s" % (type(e).__name__, e)
        files = {}
        if os.path.isdir(od):
            for f in sorted(os.listdir(od)):
                files[f] = open(os.path.join(od, f)).read().splitlines()
        return err, files

    err, files = run(os.path.join(wd, "o1"), order)
    pos_bad = [order.index(c) for c in bad]
    if err:
        return {"reproduced": True, "key": "C18:crash:%s:%s" % (err.split(":")[0], "+".join(sorted(set(bad.values())))),
                "what": "order_gfa --chromosome_order %s with non-chain %r ended with %s" % (",".join(order), bad, err)}
    good = [c for c in order if c not in bad]
    if good:
        err2, files2 = run(os.path.join(wd, "o2"), good)
        if err2:
            return {"reproduced": False, "error": "reference run failed: " + err2}
    else:
        files2 = {} if params["by_chrom"] else {"in-complete.csv": [], "in-complete.gfa": []}
    for c in bad:
        if any(("-%s." % c) in f for f in files):
            return {"reproduced": True, "key": "C18:file-for-skipped", "what": "file written for skipped %s: %r" % (c, sorted(files))}
        for f, ls in files.items():
            if any(l.split("\t")[1] in spec.chroms[c] for l in ls if l.startswith("S")):
                return {"reproduced": True, "key": "C18:skipped-in-output", "what": "nodes of skipped %s appear in %s" % (c, f)}
    if files != files2:
        return {"reproduced": True, "key": "C18:others-differ", "what": "outputs differ from the run without the skipped chromosome(s): %r vs %r" % (
            {k: len(v) for k, v in files.items()}, {k: len(v) for k, v in files2.items()})}
    return {"reproduced": False, "detail": "skipped chromosomes are isolated"}
