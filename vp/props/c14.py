"""C14 — path sequences are spelled correctly and only for real walks."""
import itertools
import os

from .. import rt, stubs
from ..engine import Harness, Direct
from . import tokfam

ID = "C14"
M = {}

META = {
    "level": "other",
    "functions": {"gaftools.gfa": ["GFA.path_exists", "GFA.add_edge", "GFA.extract_path", "GFA.read_graph", "GFA.add_node"],
                  "gaftools.utils": ["rev_comp"], "gaftools.cli.find_path": ["run"]},
    "explanation": "Symbolic execution (CrossHair/z3) of the real read_graph -> add_edge/E_DIR -> extract_path/path_exists "
    "-> find_path.run on the model file system, where the link lines of the GFA (endpoints, both signs, which end declares "
    "the link, self-links) and every oriented step of the requested path are chosen by symbolic selectors, so the solver "
    "enumerates every combination inside the bound.  Oracle (GFA semantics, written independently): link 'u du v dv' "
    "permits (u,du)->(v,dv) and (v,not dv)->(u,not du) and nothing else; the path spells the concatenation (reverse "
    "complement for '<') iff every consecutive pair is permitted, else ''; the reversed walk is accepted iff the walk is "
    "and spells the reverse complement; find_path emits one record per input line, in order, FASTA names seq_<path>.",
    "bounds": {"quick": "one-step: 2 nodes, 1-2 link lines (all 16x17 combinations), all 16 steps; walks: 3 oriented steps "
                        "over 3 nodes with 4 link variants per consecutive pair; find_path files of <=3 paths",
               "thorough": "same space, plus walks with a third unrelated link line and 4-step walks over 2 nodes"},
    "out": ["nodes that are not in the graph", "sequence alphabets beyond ACGTN", "paths longer than 4 steps"],
    "assumptions": ["model file system for the GFA / path file / output", "selectors range over the stated finite menus"],
}
META["explanation"] += '  Segment names come from four sets (plain letters; s1 / s1.2 / s12; HG002#1#ctg7 / chr1:5-9 / chr1; 1 / x_y|z=; / 1-alt) spread over the harnesses.  tokens/gfa.py: the tokenizer of extract_path decided as a language by z3.'
META["explanation"] += '  step3/*: two fixed link lines between the two nodes (two-node cycles, parallel links, self-loops) plus a solver-chosen third.'
META["explanation"] += '  long-node/70001bp: a segment of 70001 bases in both orientations.'

SEQ = {"a": "AAC", "b": "GT", "c": "CCGA"}
COMP = {"A": "T", "C": "G", "G": "C", "T": "A", "N": "N"}


def setup():
    import gaftools.gfa as G
    import gaftools.cli.find_path as FP

    M.update(G=G, FP=FP)


def rc(s):
    return "".join(COMP[c] for c in reversed(s))


def pick(sel, options):
    for i, o in enumerate(options):
        if sel == i:
            return o
    return options[-1]


def permitted(links, x, ox, y, oy):
    sx = "+" if ox == ">" else "-"
    sy = "+" if oy == ">" else "-"
    flip = {"+": "-", "-": "+"}
    for (u, du, v, dv) in links:
        if (x, sx, y, sy) == (u, du, v, dv):
            return True
        if (x, sx, y, sy) == (v, flip[dv], u, flip[du]):
            return True
    return False


def spell(walk):
    return "".join(SEQ[n] if o == ">" else rc(SEQ[n]) for o, n in walk)


def expected(links, walk):
    for (o1, n1), (o2, n2) in zip(walk, walk[1:]):
        if not permitted(links, n1, o1, n2, o2):
            return ""
    return spell(walk)


# external segment names (GFA allows any printable character except white space; a path step ends at the next > or <)
NAMESETS = [{"a": "a", "b": "b", "c": "c"}, {"a": "s1", "b": "s1.2", "c": "s12"}, {"a": "HG002#1#ctg7", "b": "chr1:5-9", "c": "chr1"},
            {"a": "1", "b": "x_y|z=;", "c": "1-alt"}]
NAMESET = [0]


def ext(n):
    return NAMESETS[NAMESET[0]][n]


def ptext(walk):
    return "".join(o + ext(n) for o, n in walk)


def pwalk(p):
    """menu path text (single-letter ids) -> walk"""
    return [(p[i], p[i + 1]) for i in range(0, len(p), 2)]


LINE_ORDER = [0]  # 0: S lines then L lines; 1: L lines first; 2: every segment followed by the links declared from it


def gfa_lines(nodes, links, extra=()):
    sl = ["S\t%s\t%s\tLN:i:%d\n" % (ext(n), SEQ[n], len(SEQ[n])) for n in nodes]
    ll = ["L\t%s\t%s\t%s\t%s\t0M\n" % (ext(l[0]), l[1], ext(l[2]), l[3]) for l in links]
    if LINE_ORDER[0] == 1:
        body = ll + sl
    elif LINE_ORDER[0] == 2:
        body = []
        used = set()
        for n, s_ in zip(nodes, sl):
            body.append(s_)
            for i, l in enumerate(links):
                if l[0] == n and i not in used:
                    used.add(i)
                    body.append(ll[i])
        body += [ll[i] for i in range(len(links)) if i not in used]
    else:
        body = sl + ll
    return ["H\tVN:Z:1.0\n"] + body + list(extra)


LONG_B = ("ACGTTGCAAGTCCA" * 5001)[:70001]

ALL_LINKS2 = [(u, du, v, dv) for u in "ab" for du in "+-" for v in "ab" for dv in "+-"]
STEP3_PAIRS = [(("a", "+", "b", "+"), ("b", "+", "a", "+")), (("a", "+", "b", "-"), ("a", "-", "b", "+")), (("a", "+", "a", "+"), ("a", "-", "a", "-")),
               (("a", "+", "a", "+"), ("a", "+", "b", "+")), (("b", "-", "a", "+"), ("a", "+", "b", "+")), (("a", "+", "a", "-"), ("b", "+", "b", "-"))]


def harnesses(tier):
    hs = []
    for i, l in enumerate(ALL_LINKS2):
        hs.append({"id": "step/%s%s%s%s" % l, "params": {"kind": "step", "link": i}, "timeout": 600, "twin": i == 0})
    # three link lines over two nodes: the first two fixed (two-node cycles, parallel links, self-loops), the third and the step symbolic
    for i, (l1, l2) in enumerate(STEP3_PAIRS):
        hs.append({"id": "step3/%s%s%s%s,%s%s%s%s" % (l1 + l2), "params": {"kind": "step", "link": ALL_LINKS2.index(l1), "link2": ALL_LINKS2.index(l2)}, "timeout": 600})
    for o in "><":
        for n in "abc":
            hs.append({"id": "walk/%s%s" % (o, n), "params": {"kind": "walk", "first": [o, n]}, "timeout": 900, "twin": (o, n) == (">", "a")})
    # a segment longer than 64 KiB (length not a multiple of a power of two), traversed in either orientation
    hs.append({"id": "long-node/70001bp", "params": {"kind": "long"}, "timeout": 600})
    for cnt in (0, 1, 2, 3):
        for fa in (0, 1):
            hs.append({"id": "find_path/file/%d/%d" % (cnt, fa), "params": {"kind": "file", "count": cnt, "fasta": fa}, "timeout": 600})
    hs.append({"id": "find_path/single", "params": {"kind": "single"}, "timeout": 300})
    if tier == "thorough":
        for o in "><":
            for n in "ab":
                hs.append({"id": "walk4/%s%s" % (o, n), "params": {"kind": "walk4", "first": [o, n]}, "timeout": 1800})
    hs.append(tokfam.harness("C14", "gaftools/gfa.py"))
    return hs


def load_graph(lines, name="g.gfa"):
    e = stubs.env()
    e.files[name] = stubs.MFile("text", lines, None)
    return M["G"].GFA(name)


def variants(n1, o1, n2, o2):
    """link lines for the pair: exact, declared from the other end, one sign flipped, none"""
    s1 = "+" if o1 == ">" else "-"
    s2 = "+" if o2 == ">" else "-"
    flip = {"+": "-", "-": "+"}
    return [[(n1, s1, n2, s2)], [(n2, flip[s2], n1, flip[s1])], [(n1, s1, n2, flip[s2])], []]


def build(params):
    if params.get("kind") == "tokens":
        return Direct(lambda: tokfam.run(params))
    kind = params["kind"]
    if kind == "step":
        link1 = ALL_LINKS2[params["link"]]
        args = [("l2", "int"), ("x", "int"), ("ox", "int"), ("y", "int"), ("oy", "int")]
        pre = ["0 <= l2 <= 16 and 0 <= x <= 1 and 0 <= ox <= 1 and 0 <= y <= 1 and 0 <= oy <= 1"]

        def case(l2, x, ox, y, oy):
            LINE_ORDER[0] = params["link"] % 3
            NAMESET[0] = params["link"] % 4
            links = [link1]
            if "link2" in params:
                links.append(ALL_LINKS2[params["link2"]])
            second = pick(l2, ALL_LINKS2 + [None])
            if second is not None:
                links.append(second)
            walk = [(pick(ox, "><"), pick(x, "ab")), (pick(oy, "><"), pick(y, "ab"))]
            g = load_graph(gfa_lines("ab", links))
            path = ptext(walk)
            got = g.extract_path(path)
            want = expected(links, walk)
            if got != want:
                return "extract_path(%s) with links %r returned %r, expected %r" % (path, links, got, want)
            return None

        return Harness(args, pre, case, fuel=50)
    if kind in ("walk", "walk4"):
        o0, n0 = params["first"]
        nsteps = 3 if kind == "walk" else 4
        pool = "abc" if kind == "walk" else "ab"
        args = []
        pre = []
        for i in range(1, nsteps):
            args += [("n%d" % i, "int"), ("o%d" % i, "int"), ("v%d" % i, "int")]
            pre.append("0 <= n%d <= %d and 0 <= o%d <= 1 and 0 <= v%d <= 3" % (i, len(pool) - 1, i, i))

        def case(*a):
            LINE_ORDER[0] = ("abc".index(n0) + (1 if o0 == "<" else 0)) % 3
            NAMESET[0] = ("abc".index(n0) + (2 if o0 == "<" else 0)) % 4
            walk = [(o0, n0)]
            links = []
            for i in range(nsteps - 1):
                n, o, v = a[3 * i], a[3 * i + 1], a[3 * i + 2]
                step = (pick(o, "><"), pick(n, pool))
                links += pick(v, variants(walk[-1][1], walk[-1][0], step[1], step[0]))
                walk.append(step)
            g = load_graph(gfa_lines("abc", links))
            path = ptext(walk)
            got = g.extract_path(path)
            want = expected(links, walk)
            if got != want:
                return "extract_path(%s) with links %r returned %r, expected %r" % (path, links, got, want)
            rwalk = [(">" if o == "<" else "<", n) for o, n in reversed(walk)]
            rpath = ptext(rwalk)
            rgot = g.extract_path(rpath)
            if (rgot != "") != (got != ""):
                return "reversed walk %s accepted=%r but walk %s accepted=%r" % (rpath, rgot != "", path, got != "")
            if rgot != "" and rgot != rc(got):
                return "reversed walk does not spell the reverse complement"
            return None

        return Harness(args, pre, case, fuel=50)
    if kind == "long":
        def case_long(ox, oy, first):
            saved = dict(SEQ)
            try:
                SEQ["b"] = LONG_B
                LINE_ORDER[0] = 0
                NAMESET[0] = 0
                links = [("a", "+", "b", "+"), ("a", "+", "b", "-"), ("b", "+", "a", "+"), ("b", "-", "a", "+")]
                g = load_graph(gfa_lines("ab", links))
                steps = [(pick(ox, "><"), "a"), (pick(oy, "><"), "b")]
                walk = steps if pick(first, [0, 1]) == 0 else [steps[1], steps[0]]
                got = g.extract_path(ptext(walk))
                want = expected(links, walk)
                if got != want:
                    return "extract_path(%s) over a 70001 bp segment returned %d bases (first differing position %s), expected %d" % (
                        ptext(walk), len(got), next((i for i, (x, y) in enumerate(zip(got, want)) if x != y), "none"), len(want))
                return None
            finally:
                SEQ.clear()
                SEQ.update(saved)

        return Harness([("ox", "int"), ("oy", "int"), ("first", "int")], ["0 <= ox <= 1 and 0 <= oy <= 1 and 0 <= first <= 1"], case_long, fuel=50)
    LINKS = [("a", "+", "b", "+"), ("b", "+", "c", "-"), ("c", "+", "a", "+"), ("b", "-", "b", "+")]
    MENU = [">a>b", "<b<a", ">a>b<c", ">c>a", ">a>c", "<a<c", ">b>b", "<b>b", ">a", "<c>b", ">b<c<a"]
    if kind == "file":
        count = params["count"]
        menu = MENU if count < 3 else MENU[:6]
        args = [("p0", "int"), ("p1", "int"), ("p2", "int")]
        pre = [" and ".join("0 <= p%d <= %d" % (i, (len(menu) - 1) if i < count else 0) for i in range(3))]

        def case(p0, p1, p2):
            LINE_ORDER[0] = (count + params["fasta"]) % 3
            NAMESET[0] = (2 * count + params["fasta"] + 1) % 4
            FP = M["FP"]
            e = stubs.env()
            e.files["g.gfa"] = stubs.MFile("text", gfa_lines("abc", LINKS), None)
            fa = params["fasta"]
            paths = [pick(p, menu) for p in (p0, p1, p2)][:count]
            e.files["paths.txt"] = stubs.MFile("text", [ptext(pwalk(p)) + "\n" for p in paths], None)
            fasta = bool(pick(fa, [0, 1]))
            FP.run("g.gfa", "paths.txt", output="o.txt", fasta=fasta)
            out = [l.rstrip("\n") for l in e.files["o.txt"].lines]
            want = []
            for p in paths:
                walk = pwalk(p)
                if fasta:
                    want.append(">seq_" + ptext(walk))
                want.append(expected(LINKS, walk))
            # an empty sequence is written as an empty line
            if out != want:
                return "find_path wrote %r, expected %r" % (out, want)
            return None

        return Harness(args, pre, case, fuel=50)
    if kind == "single":
        args = [("p0", "int"), ("fa", "int")]
        pre = ["0 <= p0 <= %d and 0 <= fa <= 1" % (len(MENU) - 1)]

        def case(p0, fa):
            LINE_ORDER[0] = 2
            NAMESET[0] = 2
            FP = M["FP"]
            e = stubs.env()
            # an earlier call on another graph (no links at all) must leave nothing behind
            e.files["g0.gfa"] = stubs.MFile("text", gfa_lines("abc", []), None)
            FP.run("g0.gfa", ptext(pwalk(">a>b")), output="o0.txt", fasta=False)
            e.files["g.gfa"] = stubs.MFile("text", gfa_lines("abc", LINKS), None)
            p = pick(p0, MENU)
            fasta = bool(pick(fa, [0, 1]))
            walk = pwalk(p)
            FP.run("g.gfa", ptext(walk), output="o.txt", fasta=fasta)
            out = [l.rstrip("\n") for l in e.files["o.txt"].lines]
            want = ([">seq_" + ptext(walk)] if fasta else []) + [expected(LINKS, walk)]
            if out != want:
                return "find_path wrote %r, expected %r" % (out, want)
            return None

        return Harness(args, pre, case, fuel=50)
    raise AssertionError(kind)


def replay(params, model, wd):
    if params.get("kind") == "tokens":
        return tokfam.replay(params, model, wd)
    import gaftools.cli.find_path as FP

    kind = params["kind"]
    a = model["args"]
    LINKS = [("a", "+", "b", "+"), ("b", "+", "c", "-"), ("c", "+", "a", "+"), ("b", "-", "b", "+")]
    MENU = [">a>b", "<b<a", ">a>b<c", ">c>a", ">a>c", "<a<c", ">b>b", "<b>b", ">a", "<c>b", ">b<c<a"]
    fasta = False
    if kind == "step":
        LINE_ORDER[0] = params["link"] % 3
        NAMESET[0] = params["link"] % 4
    elif kind in ("walk", "walk4"):
        LINE_ORDER[0] = ("abc".index(params["first"][1]) + (1 if params["first"][0] == "<" else 0)) % 3
        NAMESET[0] = ("abc".index(params["first"][1]) + (2 if params["first"][0] == "<" else 0)) % 4
    elif kind == "file":
        LINE_ORDER[0] = (params["count"] + params["fasta"]) % 3
        NAMESET[0] = (2 * params["count"] + params["fasta"] + 1) % 4
    else:
        LINE_ORDER[0] = 2
        NAMESET[0] = 2
    reqs = []
    if kind == "long":
        SEQ["b"] = LONG_B
        LINE_ORDER[0] = 0
        NAMESET[0] = 0
        links = [("a", "+", "b", "+"), ("a", "+", "b", "-"), ("b", "+", "a", "+"), ("b", "-", "a", "+")]
        steps = [("><"[a[0]], "a"), ("><"[a[1]], "b")]
        reqs = [steps if a[2] == 0 else [steps[1], steps[0]]]
        nodes = "ab"
    elif kind == "step":
        links = [ALL_LINKS2[params["link"]]]
        if "link2" in params:
            links.append(ALL_LINKS2[params["link2"]])
        second = (ALL_LINKS2 + [None])[a[0]]
        if second:
            links.append(second)
        walk = [("><"[a[2]], "ab"[a[1]]), ("><"[a[4]], "ab"[a[3]])]
        reqs = [walk]
        nodes = "ab"
    elif kind in ("walk", "walk4"):
        nsteps = 3 if kind == "walk" else 4
        pool = "abc" if kind == "walk" else "ab"
        walk = [tuple(params["first"])]
        links = []
        for i in range(nsteps - 1):
            n, o, v = a[3 * i], a[3 * i + 1], a[3 * i + 2]
            step = ("><"[o], pool[n])
            links += variants(walk[-1][1], walk[-1][0], step[1], step[0])[v]
            walk.append(step)
        rwalk = [(">" if o == "<" else "<", n) for o, n in reversed(walk)]
        reqs = [walk, rwalk]
        nodes = "abc"
    else:
        links = LINKS
        nodes = "abc"
        if kind == "file":
            count = params["count"]
            reqs = [[(p[i], p[i + 1]) for i in range(0, len(p), 2)] for p in [MENU[a[0]], MENU[a[1]], MENU[a[2]]][:count]]
            fasta = bool(params["fasta"])
        else:
            p = MENU[a[0]]
            reqs = [[(p[i], p[i + 1]) for i in range(0, len(p), 2)]]
            fasta = bool(a[1])
    gfa = os.path.join(wd, "g.gfa")
    open(gfa, "w").write("".join(gfa_lines(nodes, links)))
    paths = [ptext(w) for w in reqs]
    if kind == "single":
        inp = paths[0]
    else:
        inp = os.path.join(wd, "paths.txt")
        open(inp, "w").write("".join(p + "\n" for p in paths))
    out = os.path.join(wd, "o.txt")
    err = None
    try:
        FP.run(gfa, inp, output=out, fasta=fasta)
    except BaseException as e:  # noqa
        err = "%s: %s" % (type(e).__name__, e)
    if err:
        return {"reproduced": True, "key": "C14:exception:" + err.split(":")[0], "what": err}
    got = open(out).read().split("\n")
    if got and got[-1] == "":
        got = got[:-1]
    want = []
    for p, w in zip(paths, reqs):
        if fasta:
            want.append(">seq_" + p)
        want.append(expected(links, w))
    files = {"gfa": gfa_lines(nodes, links), "paths": paths, "output": got}
    if got != want:
        # classify
        key = "C14:output"
        if len(got) == len(want):
            for g_, w_, p in zip(got, want, [q for q in paths for _ in range(2 if fasta else 1)]):
                if g_ != w_:
                    key = "C14:%s" % ("accepted-nonwalk" if w_ == "" else "rejected-walk" if g_ == "" else "misspelled")
                    break
        else:
            key = "C14:record-count"
        return {"reproduced": True, "key": key, "what": "find_path %r over links %r wrote %r, expected %r" % (paths, links, got, want), "files": files}
    if kind in ("walk", "walk4") and want[0] != "" and want[1] != rc(want[0]):
        return {"reproduced": True, "key": "C14:oracle-inconsistent", "what": "oracle"}
    return {"reproduced": False, "detail": "find_path output matches GFA semantics", "output": got}
