"""C02 — conversion is lossless: round trips and untouched columns."""
import json

from . import convfam as F
from . import c01
from ..engine import Harness
from .. import rt, stubs

ID = "C02"
setup = F.setup

META = {
    "level": "other",
    "functions": {
        "gaftools.conversion": ["to_stable", "to_unstable", "merge_nodes", "stable_to_unstable", "unstable_to_stable"],
        "gaftools.cli.view": ["run"],
    },
    "explanation": "Same symbolic executions as C01 (real view.run -> to_stable -> to_unstable -> to_stable) with the "
    "lossless assertions: for a canonical unstable record (start inside the first node, end inside the last) the "
    "record that comes back is equal field by field (path text, path length, start, end, strand, CIGAR) and the stable "
    "form reproduces itself; read name, read length/start/end, matches, block length, MAPQ (all symbolic) and every "
    "non-cg optional field are unchanged and in parsed order after each conversion; a stream of n records yields "
    "exactly n lines and line i is the conversion of record i.",
    "bounds": {"quick": "all walks of <=2 steps over 6 segments + curated 3-5 step walks; streams of n in {0,1,2,3} records",
               "thorough": "all walks of <=3 steps over 6 segments"},
    "out": ["n > 3 records per stream", "parsing of the input line (C16)", "walks longer than the bound"],
    "assumptions": c01.META["assumptions"],
}


def harnesses(tier):
    hs = []
    for h in c01.harnesses(tier):
        if h["params"]["kind"] == "chain":
            hs.append(dict(h, twin=h["id"] in ("chain/>s0>a0",)))
    for n, walks in ((0, []), (1, [">s0"]), (2, [">s0>s1", "<a0"]), (3, ["<s1<s0", ">a0>a1", ">s2"]), (3, [">s0", ">s0", ">b0>s1"])):
        hs.append({"id": "stream/%d/%s" % (n, "+".join(walks)), "params": {"kind": "stream", "walks": walks}, "timeout": 400})
    return hs


def build(params):
    if params["kind"] == "chain":
        walk = c01.parse_walk(params["walk"])
        args = [(a, "int") for a in F.LAYOUT_ARGS + ["ps", "pe", "qlen", "qs", "qe", "nm", "bl", "mq"]]
        pre = c01.chain_pre(walk)[:-1] + ["qlen >= 0 and qs >= 0 and qe >= 0 and nm >= 0 and bl >= 0 and mq >= 0"]

        def case(*a):
            L = a[:11]
            ps, pe = a[11:13]
            cols = a[13:19]
            return F.convert_chain(walk, L, ps, pe, 0, cols, "C02")

        return Harness(args, pre, case, fuel=50)
    walks = [c01.parse_walk(w) for w in params["walks"]]
    n = len(walks)
    args = [(a, "int") for a in F.LAYOUT_ARGS]
    pre = list(F.LAYOUT_PRE)
    for i, w in enumerate(walks):
        args += [("ps%d" % i, "int"), ("pe%d" % i, "int")]
        pre.append("0 <= ps%d < pe%d <= %s" % (i, i, " + ".join(c01.LEN[x] for _, x in w)))

    def case(*a):
        L = a[:11]
        segs = F.layout(L)
        cols = (100, 0, 100, 5, 20, 60)
        recs = []
        for i, w in enumerate(walks):
            ps, pe = a[11 + 2 * i], a[12 + 2 * i]
            path = c01.walk_str(w)
            total = sum(segs[x][2] for _, x in w)
            recs.append((path, total, ps, pe))
        mk = [(lambda r=r, i=i: F.mk_alignment("r%d" % i, cols, "+", r[0], r[1], r[2], r[3], F.CIG, F.TAGS)) for i, r in enumerate(recs)]
        if n == 0:
            # an empty file: format detection sees no record
            try:
                out = F.run_view(segs, [], "stable")
            except Exception as e:
                return "empty input: %s" % type(e).__name__
            return None if len(out) == 0 else "empty input produced output"
        out = F.run_view(segs, mk, "stable")
        if len(out) != n:
            return "stream of %d records produced %d lines" % (n, len(out))
        singles = [F.run_view(segs, [m], "stable")[0] for m in mk]
        for i in range(n):
            fa = out[i].split("\t")
            fb = singles[i].split("\t")
            if len(fa) != len(fb):
                return "line %d is not the conversion of record %d" % (i, i)
            for x, y in zip(fa, fb):
                if not (x == y):
                    return "line %d is not the conversion of record %d" % (i, i)
        # and back
        smk = []
        for i in range(n):
            s = out[i].rstrip("\n").split("\t")
            tg = F.parse_tags(s[12:])
            cg = [v for kk, v in tg if kk == "cg:Z:"]
            smk.append(lambda s=s, tg=tg, cg=cg, i=i: F.mk_alignment(
                "r%d" % i, cols, s[4], s[5], rt.sym_int(s[6]), rt.sym_int(s[7]), rt.sym_int(s[8]), cg[0], tg))
        back = F.run_view(segs, smk, "unstable")
        if len(back) != n:
            return "stream of %d stable records produced %d lines" % (n, len(back))
        for i in range(n):
            if back[i].split("\t")[0] != "r%d" % i:
                return "stable->unstable stream out of order"
        return None

    return Harness(args, pre, case, fuel=50)


def replay(params, model, wd):
    if params["kind"] == "chain":
        m = dict(model)
        a = model["args"]
        m["args"] = list(a[:13]) + [0]
        return c01.replay(params, m, wd, which="C02")
    a = model["args"]
    L = a[:11]
    segs = F.layout(L)
    walks = [c01.parse_walk(w) for w in params["walks"]]
    gfa, seqs = F.write_rgfa(wd, segs, walks)
    tags = "\t".join(k_ + v for k_, v in F.TAGS)
    lines = []
    for i, w in enumerate(walks):
        ps, pe = a[11 + 2 * i], a[12 + 2 * i]
        total = sum(segs[x][2] for _, x in w)
        lines.append("r%d\t100\t0\t100\t+\t%s\t%d\t%d\t%d\t5\t20\t60\t%s" % (i, c01.walk_str(w), total, ps, pe, tags))
    out, err = F.real_view(wd, gfa, lines, "stable", "stream")
    if len(lines) == 0:
        bad = bool(err) or len(out) != 0
        return {"reproduced": bad, "key": "C02:stream:empty", "what": "view --format stable on an empty GAF: %s" % err}
    if err or len(out) != len(lines) or [o.split("\t")[0] for o in out] != ["r%d" % i for i in range(len(lines))]:
        return {"reproduced": True, "key": "C02:stream:count", "what": "%d records in, %d lines out (%s)" % (len(lines), len(out), err)}
    for i, l in enumerate(lines):
        o1, e1 = F.real_view(wd, gfa, [l], "stable", "single%d" % i)
        if o1 != [out[i]]:
            return {"reproduced": True, "key": "C02:stream:line", "what": "line %d of the stream differs from converting record %d alone" % (i, i)}
    back, err = F.real_view(wd, gfa, out, "unstable", "back")
    if err or [o.split("\t")[0] for o in back] != ["r%d" % i for i in range(len(lines))]:
        return {"reproduced": True, "key": "C02:stream:back", "what": "stable->unstable stream: %s, %d lines" % (err, len(back))}
    return {"reproduced": False, "detail": "stream converts line by line"}
