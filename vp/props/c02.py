"""C02 — conversion is lossless: round trips and untouched columns."""
import json

from . import convfam as F
from . import c01
from ..engine import Harness, Direct
from . import tokfam
from .. import rt, stubs

ID = "C02"
setup = F.setup

META = {
    "level": "other",
    "functions": {
        "gaftools.conversion": ["to_stable", "to_unstable", "merge_nodes", "stable_to_unstable", "unstable_to_stable"],
        "gaftools.cli.view": ["run"],
    },
    "explanation": "Same symbolic executions as C01 (real view.run -> to_stable -> to_unstable -> to_stable) with the "
    "lossless assertions: for a canonical unstable record (start inside the first node, end inside the last) the "
    "record that comes back is equal field by field (path text, path length, start, end, strand, CIGAR) and the stable "
    "form reproduces itself; read name, read length/start/end, matches, block length, MAPQ (all symbolic) and every "
    "non-cg optional field are unchanged and in parsed order after each conversion; a stream of n records yields "
    "exactly n lines and line i is the conversion of record i.",
    "bounds": {"quick": "all walks of <=2 steps over 6 segments + curated 3-5 step walks; streams of n in {0,1,2,3} records",
               "thorough": "all walks of <=3 steps over 6 segments"},
    "out": ["n > 3 records per stream", "parsing of the input line (C16)", "walks longer than the bound"],
    "assumptions": c01.META["assumptions"],
}
META["explanation"] += '  tokens/conversion.py: the path tokenizers of conversion.py decided as languages by z3 (vp/props/tokfam.py).'


def harnesses(tier):
    hs = []
    for h in c01.harnesses(tier):
        if h["params"]["kind"] == "chain":
            hs.append(dict(h, twin=h["id"] in ("chain/>s0>a0",)))
    hs.append({"id": "parsed/roundtrip", "params": {"kind": "parsed"}, "timeout": 300})
    for n, walks in ((0, []), (1, [">s0"]), (2, [">s0>s1", "<a0"]), (3, ["<s1<s0", ">a0>a1", ">s2"]), (3, [">s0", ">s0", ">b0>s1"])):
        hs.append({"id": "stream/%d/%s" % (n, "+".join(walks)), "params": {"kind": "stream", "walks": walks}, "timeout": 400})
    hs.append(tokfam.harness("C02", "gaftools/conversion.py"))
    return hs


PARSED = [
    "q0\t50\t1\t11\t+\t>s0>s1\t20\t2\t12\t9\t10\t60\ttp:A:S\tNM:i:-1\tcg:Z:5=1X4=\tzd:Z:a b_#:c\n",
    "q1\t50\t0\t10\t+\t<s1<s0\t20\t3\t13\t10\t10\t0\tba:B:i,1,-2\ttp:A:I\tcg:Z:10=\n",
    "q2\t60\t5\t15\t+\t>a0>s1\t15\t1\t11\t8\t10\t7\tdv:f:-.5e-3\tch:A:*\n",
]
PARSED_L = [10, 10, 5, 0, 5, 0, 5, 0, 3, 4, 4]


def build_parsed():
    def case(dummy):
        V = F.M["V"]
        e = stubs.env()
        segs = F.layout(PARSED_L)
        F.set_walk_links([c01.parse_walk(l.split("\t")[5]) for l in PARSED])
        e.graphs["g.gfa"] = lambda low: F.build_graph(segs)
        e.files["in.gaf"] = stubs.MFile("text", PARSED, None)
        V.run("in.gaf", gfa="g.gfa", output="s.gaf", format="stable")
        st = [str(l) for l in e.files["s.gaf"].lines]
        if len(st) != 3:
            return "stable conversion wrote %d lines for 3 records" % len(st)
        e.files["s_in.gaf"] = stubs.MFile("text", st, None)
        V.run("s_in.gaf", gfa="g.gfa", output="u.gaf", format="unstable")
        un = [str(l) for l in e.files["u.gaf"].lines]
        if len(un) != 3:
            return "unstable conversion wrote %d lines for 3 records" % len(un)
        for i in range(3):
            fi = PARSED[i].rstrip("\n").split("\t")
            for name, out in (("to stable", st), ("back to unstable", un)):
                fo = out[i].rstrip("\n").split("\t")
                for c in (0, 1, 2, 3, 9, 10, 11):
                    if fo[c] != fi[c]:
                        return "record %d %s: column %d changed" % (i, name, c + 1)
                ti = [x for x in fi[12:] if not x.startswith("cg:Z:")]
                to = [x for x in fo[12:] if not x.startswith("cg:Z:")]
                if ti != to or len(fo) != len(fi):
                    return "record %d %s: optional fields %r, input %r" % (i, name, fo[12:], fi[12:])
            if un[i] != PARSED[i]:
                return "canonical record %d did not come back unchanged: %r" % (i, un[i])
        return None

    return Harness([("dummy", "int")], ["dummy == 0"], case, fuel=50)


def build(params):
    if params.get("kind") == "tokens":
        return Direct(lambda: tokfam.run(params))
    if params["kind"] == "parsed":
        return build_parsed()
    if params["kind"] == "chain":
        walk = c01.parse_walk(params["walk"])
        args = [(a, "int") for a in F.LAYOUT_ARGS + ["ps", "pe", "qlen", "qs", "qe", "nm", "bl", "mq"]]
        pre = c01.chain_pre(walk)[:-1] + ["qlen >= 0 and qs >= 0 and qe >= 0 and nm >= 0 and bl >= 0 and mq >= 0"]

        def case(*a):
            L = a[:11]
            ps, pe = a[11:13]
            cols = a[13:19]
            F.GRAPH_ORDER[0] = list(reversed(F.ORDER)) if params.get("revorder") else None
            return F.convert_chain(walk, L, ps, pe, 0, cols, "C02")

        return Harness(args, pre, case, fuel=50)
    walks = [c01.parse_walk(w) for w in params["walks"]]
    n = len(walks)
    args = [(a, "int") for a in F.LAYOUT_ARGS]
    pre = list(F.LAYOUT_PRE)
    for i, w in enumerate(walks):
        args += [("ps%d" % i, "int"), ("pe%d" % i, "int")]
        pre.append("0 <= ps%d < pe%d <= %s" % (i, i, " + ".join(c01.LEN[x] for _, x in w)))

    def case(*a):
        L = a[:11]
        segs = F.layout(L)
        cols = (100, 0, 100, 5, 20, 60)
        F.set_walk_links(walks)
        recs = []
        for i, w in enumerate(walks):
            ps, pe = a[11 + 2 * i], a[12 + 2 * i]
            path = c01.walk_str(w)
            total = sum(segs[x][2] for _, x in w)
            recs.append((path, total, ps, pe))
        mk = [(lambda r=r, i=i: F.mk_alignment("r%d" % i, cols, "+", r[0], r[1], r[2], r[3], F.CIG, F.TAGS)) for i, r in enumerate(recs)]
        if n == 0:
            # an empty file: format detection sees no record
            try:
                out = F.run_view(segs, [], "stable")
            except Exception as e:
                return "empty input: %s" % type(e).__name__
            return None if len(out) == 0 else "empty input produced output"
        out = F.run_view(segs, mk, "stable")
        if len(out) != n:
            return "stream of %d records produced %d lines" % (n, len(out))
        singles = [F.run_view(segs, [m], "stable")[0] for m in mk]
        for i in range(n):
            fa = out[i].split("\t")
            fb = singles[i].split("\t")
            if len(fa) != len(fb):
                return "line %d is not the conversion of record %d" % (i, i)
            for x, y in zip(fa, fb):
                if not (x == y):
                    return "line %d is not the conversion of record %d" % (i, i)
        # and back
        smk = []
        for i in range(n):
            s = out[i].rstrip("\n").split("\t")
            tg = F.parse_tags(s[12:])
            cg = [v for kk, v in tg if kk == "cg:Z:"]
            smk.append(lambda s=s, tg=tg, cg=cg, i=i: F.mk_alignment(
                "r%d" % i, cols, s[4], s[5], rt.sym_int(s[6]), rt.sym_int(s[7]), rt.sym_int(s[8]), cg[0], tg))
        back = F.run_view(segs, smk, "unstable")
        if len(back) != n:
            return "stream of %d stable records produced %d lines" % (n, len(back))
        for i in range(n):
            if back[i].split("\t")[0] != "r%d" % i:
                return "stable->unstable stream out of order"
        return None

    return Harness(args, pre, case, fuel=50)


def replay(params, model, wd):
    if params.get("kind") == "tokens":
        return tokfam.replay(params, model, wd)
    if params["kind"] == "parsed":
        segs = F.layout(PARSED_L)
        gfa, seqs = F.write_rgfa(wd, segs, [c01.parse_walk(l.split("\t")[5]) for l in PARSED])
        lines = [l.rstrip("\n") for l in PARSED]
        st, err = F.real_view(wd, gfa, lines, "stable", "p1")
        un, err2 = F.real_view(wd, gfa, st, "unstable", "p2")
        if err or err2 or len(st) != 3 or len(un) != 3:
            return {"reproduced": True, "key": "C02:parsed:exception", "what": "%s %s %d %d" % (err, err2, len(st), len(un))}
        for i in range(3):
            if un[i] != lines[i]:
                fi, fo = lines[i].split("\t"), un[i].split("\t")
                lost = [x for x in fi[12:] if x not in fo[12:]]
                return {"reproduced": True, "key": "C02:parsed:%s" % (("lost-" + lost[0][:5]) if lost else "changed"),
                        "what": "record %r came back as %r (stable form %r)" % (lines[i], un[i], st[i])}
        return {"reproduced": False, "detail": "parsed records round trip"}
    if params["kind"] == "chain":
        m = dict(model)
        a = model["args"]
        m["args"] = list(a[:13]) + [0]
        return c01.replay(params, m, wd, which="C02")
    a = model["args"]
    L = a[:11]
    segs = F.layout(L)
    walks = [c01.parse_walk(w) for w in params["walks"]]
    gfa, seqs = F.write_rgfa(wd, segs, walks)
    tags = "\t".join(k_ + v for k_, v in F.TAGS)
    lines = []
    for i, w in enumerate(walks):
        ps, pe = a[11 + 2 * i], a[12 + 2 * i]
        total = sum(segs[x][2] for _, x in w)
        lines.append("r%d\t100\t0\t100\t+\t%s\t%d\t%d\t%d\t5\t20\t60\t%s" % (i, c01.walk_str(w), total, ps, pe, tags))
    out, err = F.real_view(wd, gfa, lines, "stable", "stream")
    if len(lines) == 0:
        bad = bool(err) or len(out) != 0
        return {"reproduced": bad, "key": "C02:stream:empty", "what": "view --format stable on an empty GAF: %s" % err}
    if err or len(out) != len(lines) or [o.split("\t")[0] for o in out] != ["r%d" % i for i in range(len(lines))]:
        return {"reproduced": True, "key": "C02:stream:count", "what": "%d records in, %d lines out (%s)" % (len(lines), len(out), err)}
    for i, l in enumerate(lines):
        o1, e1 = F.real_view(wd, gfa, [l], "stable", "single%d" % i)
        if o1 != [out[i]]:
            return {"reproduced": True, "key": "C02:stream:line", "what": "line %d of the stream differs from converting record %d alone" % (i, i)}
    back, err = F.real_view(wd, gfa, out, "unstable", "back")
    if err or [o.split("\t")[0] for o in back] != ["r%d" % i for i in range(len(lines))]:
        return {"reproduced": True, "key": "C02:stream:back", "what": "stable->unstable stream: %s, %d lines" % (err, len(back))}
    return {"reproduced": False, "detail": "stream converts line by line"}
