"""C17 — results do not depend on input compression (partial claim)."""
import os

from .. import rt, stubs
from ..engine import Harness
from . import idxfam as IF

ID = "C17"
M = {}

META = {
    "level": "other",
    "functions": {"gaftools.gaf": ["GAF.__init__", "GAF.read_file", "GAF.read_line", "GAF.parse_gaf_line"], "gaftools.utils": ["is_file_gzipped"],
                  "gaftools.cli.index": ["run"], "gaftools.cli.sort": ["sort", "write_to_file", "run_sort"], "gaftools.cli.view": ["run"],
                  "gaftools.cli.stat": ["run_stat"], "gaftools.cli.phase": ["add_phase_info"], "gaftools.gfa": ["GFA.read_graph"],
                  "gaftools.cli.order_gfa": ["run_order_gfa"], "gaftools.cli.find_path": ["run"]},
    "explanation": "PARTIAL CLAIM: what htslib/zlib do with real BGZF blocks and virtual offsets is a C library and outside the claim; every "
    "Python-level distinction between the two modes is inside.  For each consumer of a GAF (GAF reader incl. read_line, index, "
    "sort with plain and --bgzip output, view whole-file / --format / --node, stat, phase) the real code is executed twice in ONE "
    "symbolic execution (CrossHair/z3): on the text-mode and on the BGZF-mode model file holding the same logical lines, each "
    "file with its OWN symbolic offset cookies (BGZF handles return bytes and reject str writes).  Assertions: equal records / "
    "reports / output lines, and node -> record associations compared through each file's own offsets.  For each consumer of a "
    "graph (view --format, index, sort, find_path, order_gfa incl. output file names) the run on x.gfa and on x.gfa.gz (gzip "
    "model file) must give equal results.",
    "bounds": {"quick": "3 records per file, one menu of records; all listed consumers", "thorough": "second record menu"},
    "out": ["everything inside htslib/zlib: decompression, virtual offsets across real 64 KiB blocks", "realign's FASTA/pywfa path",
            "a gzip-compressed graph whose name does not end in .gz"],
    "assumptions": ["file stub contract of DESIGN 3.2 (tell before readline = cookie of that line; BGZF yields bytes; gzip.open('rt') yields str)"],
}
META["explanation"] += '  gaf/stat-same-path: the same path holds the plain file first and its BGZF copy later in one execution, and the other way round.'
META["explanation"] += '  The BGZF GAF is called z.bgzf.gaf (no .gz suffix); the compressed graph of the replay is a gzip file of two members.'
META["explanation"] += '  One read name of the GAF holds multi-byte characters; one segment of the graphs carries a Z annotation with blanks.'

LINES = [
    "r0\t50\t0\t10\t+\t>s0>s1\t25\t2\t12\t9\t10\t60\ttp:A:P\tNM:i:-1\tcg:Z:5=1X4=\n",
    "r1\t50\t0\t10\t+\t<s1<a0\t19\t0\t10\t10\t10\t0\ttp:A:S\tcg:Z:10=\n",
    "r2 extra w\u00f6rds \u4e2d\t50\t3\t13\t+\t>s1<b0>s2\t22\t1\t11\t8\t10\t60\tcg:Z:4=2D4=\tzd:Z:a b:c \n",
]
STABLE = [
    "r0\t50\t0\t10\t+\tchr1\t30\t2\t12\t9\t10\t60\ttp:A:P\tcg:Z:5=1X4=\n",
    "r1\t50\t0\t10\t+\t<chr1:10-25<hap-A.1:100-104\t19\t0\t10\t10\t10\t0\ttp:A:S\tcg:Z:10=\n",
    "r2\t50\t3\t13\t+\t>hap-A.1:110-120\t10\t0\t10\t8\t10\t60\tcg:Z:10=\n",
]
BONO = {"s0": (0, 0), "s1": (2, 0), "s2": (4, 0), "a0": (1, 1), "a1": (3, 1), "b0": (3, 2), "c9": (3, 3)}


def setup():
    IF.setup()
    import gaftools.gaf as GA
    import gaftools.cli.sort as S
    import gaftools.cli.stat as ST
    import gaftools.cli.phase as P
    import gaftools.cli.find_path as FP
    import gaftools.cli.order_gfa as O
    import gaftools.gfa as G

    M.update(GA=GA, S=S, ST=ST, P=P, FP=FP, O=O, G=G, V=IF.M["V"], I=IF.M["I"])


CONSUMERS = ["reader", "index", "index-stable", "sort", "view-whole", "view-format", "view-nodes", "stat", "phase", "stat-same-path"]
GRAPH_CONSUMERS = ["view-format", "index-stable", "sort", "find_path", "order_gfa", "order_gfa-bychrom"]


def harnesses(tier):
    hs = []
    for c in CONSUMERS:
        hs.append({"id": "gaf/" + c, "params": {"kind": "gaf", "consumer": c}, "timeout": 900, "twin": c == "reader"})
    for c in GRAPH_CONSUMERS:
        hs.append({"id": "graph/" + c, "params": {"kind": "graph", "consumer": c}, "timeout": 900})
    return hs


def gfa_lines(tagged=False, seq=False):
    out = []
    for nid, (sn, so, ln, sr) in IF.LAY.items():
        l = "S\t%s\t%s\tLN:i:%d\tSN:Z:%s\tSO:i:%d\tSR:i:%d" % (nid, ("ACGT" * 10)[:ln] if seq else "*", ln, sn, so, sr)
        if nid == "s1":
            l += "\tDS:Z:primary assembly, patch 2"  # a Z value may hold blanks
        if tagged:
            l += "\tBO:i:%d\tNO:i:%d" % BONO[nid]
        out.append(l + "\n")
    for u, du, v, dv in IF.LINKS:
        out.append("L\t%s\t%s\t%s\t%s\t0M\n" % (u, du, v, dv))
    return out


def put(e, name, lines, kind, cookies=None):
    e.files[name] = stubs.MFile(kind, lines, cookies)


def strs(lines):
    return [l if isinstance(l, str) else l for l in lines]


def same_lines(a, b, what):
    if len(a) != len(b):
        return "%s: %d lines vs %d lines" % (what, len(a), len(b))
    for x, y in zip(a, b):
        if not (x == y):
            return "%s differs between plain and compressed input" % what
    return None


def rec_fields(al):
    return (al.query_name, al.query_length, al.query_start, al.query_end, al.strand, al.path, al.path_length, al.path_start, al.path_end,
            al.residue_matches, al.alignment_block_length, al.mapping_quality, al.is_primary, al.cigar, list(al.tags.items()))


def build(params):
    cons = params["consumer"]
    if params["kind"] == "gaf":
        args = [("t%d" % i, "int") for i in range(4)] + [("z%d" % i, "int") for i in range(4)] + [("w%d" % i, "int") for i in range(4)] + [
            ("y%d" % i, "int") for i in range(4)]
        pre = ["0 <= t0 < t1 < t2 < t3", "0 <= z0 < z1 < z2 < z3", "0 <= w0 < w1 < w2 < w3", "0 <= y0 < y1 < y2 < y3"]

        def case(*a):
            tc, zc, wc, yc = list(a[0:4]), list(a[4:8]), list(a[8:12]), list(a[12:16])
            e = stubs.env()
            lines = STABLE if cons in ("index-stable",) else LINES
            put(e, "p.gaf", lines, "text", tc)
            put(e, "z.bgzf.gaf", lines, "bgzf", zc)
            put(e, "g.gfa", gfa_lines(tagged=True), "text")
            GA, V, I, S, ST, P = M["GA"], M["V"], M["I"], M["S"], M["ST"], M["P"]
            if cons == "reader":
                ga, gb = GA.GAF("p.gaf"), GA.GAF("z.bgzf.gaf")
                ra = [rec_fields(x) for x in ga.read_file()]
                rb = [rec_fields(x) for x in gb.read_file()]
                if ra != rb:
                    return "records parsed from the compressed file differ"
                if len(ra) != 3:
                    return "%d records parsed" % len(ra)
                for i in (2, 0, 1):
                    if rec_fields(ga.read_line(tc[i])) != ra[i] or rec_fields(gb.read_line(zc[i])) != ra[i]:
                        return "read_line(offset of record %d) does not return record %d" % (i, i)
                if GA.utils.is_file_gzipped("p.gaf") or not GA.utils.is_file_gzipped("z.bgzf.gaf"):
                    return "is_file_gzipped wrong"
                return None
            if cons in ("index", "index-stable"):
                I.run("p.gaf", "g.gfa", output="p.gvi")
                I.run("z.bgzf.gaf", "g.gfa", output="z.gvi")
                da, db = e.pickles["p.gvi"], e.pickles["z.gvi"]
                if set(da.keys()) != set(db.keys()):
                    return "index keys differ between plain and compressed GAF"
                for k in da:
                    if k == "ref_contig":
                        if da[k] != db[k]:
                            return "ref_contig differs"
                        continue
                    ia = [[j for j in range(3) if tc[j] == o] for o in da[k]]
                    ib = [[j for j in range(3) if zc[j] == o] for o in db[k]]
                    if ia != ib or any(len(x) != 1 for x in ia):
                        return "offsets of node %s resolve to different records in the two files" % (k[0],)
                return None
            if cons == "sort":
                e.writer_cookies["o1.gaf"] = wc
                e.writer_cookies["o2.gaf"] = yc
                e.writer_cookies["o3.gaf.gz"] = yc
                S.run_sort("g.gfa", "p.gaf", outgaf="o1.gaf")
                S.run_sort("g.gfa", "z.bgzf.gaf", outgaf="o2.gaf")
                S.run_sort("g.gfa", "z.bgzf.gaf", outgaf="o3.gaf.gz", bgzip=True)
                r = same_lines(e.files["o1.gaf"].lines, e.files["o2.gaf"].lines, "sorted output")
                if r:
                    return r
                r = same_lines(e.files["o1.gaf"].lines, e.files["o3.gaf.gz"].lines, "sorted --bgzip output")
                if r:
                    return r
                if e.files["o3.gaf.gz"].kind != "bgzf":
                    return "--bgzip output was not written through a BGZF handle"
                ia, ib, ic = e.pickles["o1.gaf.gsi"], e.pickles["o2.gaf.gsi"], e.pickles["o3.gaf.gz.gsi"]
                if set(ia) != set(ib) or set(ia) != set(ic):
                    return "sort index contigs differ"
                for k in ia:
                    pa = [wc.index(x) if x in wc else -1 for x in ia[k]]
                    pb = [yc.index(x) if x in yc else -1 for x in ib[k]]
                    pc = [yc.index(x) if x in yc else -1 for x in ic[k]]
                    if pa != pb or pa != pc or -1 in pa:
                        return "sort index entries resolve to different records"
                return None
            if cons == "view-whole":
                V.run("p.gaf", output="o1.gaf")
                V.run("z.bgzf.gaf", output="o2.gaf")
                return same_lines(e.files["o1.gaf"].lines, e.files["o2.gaf"].lines, "view output")
            if cons == "view-format":
                V.run("p.gaf", gfa="g.gfa", output="o1.gaf", format="stable")
                V.run("z.bgzf.gaf", gfa="g.gfa", output="o2.gaf", format="stable")
                if len(e.files["o1.gaf"].lines) != 3:
                    return "conversion wrote %d lines" % len(e.files["o1.gaf"].lines)
                return same_lines(e.files["o1.gaf"].lines, e.files["o2.gaf"].lines, "view --format output")
            if cons == "view-nodes":
                I.run("p.gaf", "g.gfa")
                I.run("z.bgzf.gaf", "g.gfa")
                for q in (["s1"], ["b0", "s0"], ["a0"]):
                    V.run("p.gaf", output="o1.gaf", nodes=list(q))
                    V.run("z.bgzf.gaf", output="o2.gaf", nodes=list(q))
                    r = same_lines(e.files["o1.gaf"].lines, e.files["o2.gaf"].lines, "view -n %s output" % "+".join(q))
                    if r:
                        return r
                    if len(e.files["o1.gaf"].lines) == 0:
                        return "view -n %s printed nothing" % q
                return None
            if cons == "stat":
                for cg in (False, True):
                    ST.run_stat("p.gaf", cigar_stat=cg, output="o1.txt")
                    ST.run_stat("z.bgzf.gaf", cigar_stat=cg, output="o2.txt")
                    r = same_lines(e.files["o1.txt"].lines, e.files["o2.txt"].lines, "stat report")
                    if r:
                        return r
                return None
            if cons == "stat-same-path":
                # the same path holds the plain file first and its BGZF copy later in the same process (sort --bgzip onto an existing
                # name does this), and the other way round under another name
                for name, kinds in (("x.gaf", ("text", "bgzf")), ("y.gaf", ("bgzf", "text"))):
                    for j, k in enumerate(kinds):
                        put(e, name, lines, k, tc if k == "text" else zc)
                        ST.run_stat(name, cigar_stat=True, output="o%d.txt" % j)
                    r = same_lines(e.files["o0.txt"].lines, e.files["o1.txt"].lines, "stat report of %s rewritten as %s" % (name, kinds[1]))
                    if r:
                        return r
                return None
            if cons == "phase":
                put(e, "h.tsv", ["r0\tH1\t7\tchr1\n", "r2\tnone\tnone\tchr1\n"], "text")
                P.add_phase_info("p.gaf", "h.tsv", "o1.gaf")
                P.add_phase_info("z.bgzf.gaf", "h.tsv", "o2.gaf")
                if len(e.files["o1.gaf"].lines) != 3:
                    return "phase wrote %d lines" % len(e.files["o1.gaf"].lines)
                return same_lines(e.files["o1.gaf"].lines, e.files["o2.gaf"].lines, "phase output")
            raise AssertionError(cons)

        return Harness(args, pre, case, fuel=200)

    args = [("t%d" % i, "int") for i in range(4)] + [("w%d" % i, "int") for i in range(4)]
    pre = ["0 <= t0 < t1 < t2 < t3", "0 <= w0 < w1 < w2 < w3"]

    def case(*a):
        tc, wc = list(a[0:4]), list(a[4:8])
        e = stubs.env()
        V, I, S, FP, O = M["V"], M["I"], M["S"], M["FP"], M["O"]
        seq = cons == "find_path"
        put(e, "x.gfa", gfa_lines(tagged=(cons == "sort"), seq=seq), "text")
        put(e, "x.gfa.gz", gfa_lines(tagged=(cons == "sort"), seq=seq), "gzip")
        if cons == "view-format":
            put(e, "p.gaf", LINES, "text", tc)
            V.run("p.gaf", gfa="x.gfa", output="o1.gaf", format="stable")
            V.run("p.gaf", gfa="x.gfa.gz", output="o2.gaf", format="stable")
            return same_lines(e.files["o1.gaf"].lines, e.files["o2.gaf"].lines, "view --format output (plain vs gzip graph)")
        if cons == "index-stable":
            put(e, "p.gaf", STABLE, "text", tc)
            I.run("p.gaf", "x.gfa", output="a.gvi")
            I.run("p.gaf", "x.gfa.gz", output="b.gvi")
            da, db = e.pickles["a.gvi"], e.pickles["b.gvi"]
            if set(da.keys()) != set(db.keys()):
                return "index keys differ between plain and gzip graph"
            for k in da:
                if len(da[k]) != len(db[k]) or any(not (x == y) for x, y in zip(da[k], db[k])):
                    return "index entries differ between plain and gzip graph"
            return None
        if cons == "sort":
            put(e, "p.gaf", LINES, "text", tc)
            e.writer_cookies["o1.gaf"] = wc
            e.writer_cookies["o2.gaf"] = wc
            S.run_sort("x.gfa", "p.gaf", outgaf="o1.gaf")
            S.run_sort("x.gfa.gz", "p.gaf", outgaf="o2.gaf")
            return same_lines(e.files["o1.gaf"].lines, e.files["o2.gaf"].lines, "sorted output (plain vs gzip graph)")
        if cons == "find_path":
            put(e, "paths.txt", [">s0>s1\n", "<s2>b0\n", ">s1<b0>s2\n"], "text")
            FP.run("x.gfa", "paths.txt", output="o1.txt", fasta=True)
            FP.run("x.gfa.gz", "paths.txt", output="o2.txt", fasta=True)
            if len(e.files["o1.txt"].lines) != 6:
                return "find_path wrote %d lines" % len(e.files["o1.txt"].lines)
            return same_lines(e.files["o1.txt"].lines, e.files["o2.txt"].lines, "find_path output (plain vs gzip graph)")
        if cons.startswith("order_gfa"):
            by = cons.endswith("bychrom")
            O.run_order_gfa("x.gfa", "o1", by, chromosome_order="chr1", with_sequence=False)
            O.run_order_gfa("x.gfa.gz", "o2", by, chromosome_order="chr1", with_sequence=False)
            f1 = sorted(p[3:] for p in e.files if p.startswith("o1/"))
            f2 = sorted(p[3:] for p in e.files if p.startswith("o2/"))
            if not f1:
                return "order_gfa wrote nothing"
            if f1 != f2:
                return "output files %r for x.gfa but %r for x.gfa.gz" % (f1, f2)
            for n in f1:
                r = same_lines(e.files["o1/" + n].lines, e.files["o2/" + n].lines, "order_gfa output %s (plain vs gzip graph)" % n)
                if r:
                    return r
            return None
        raise AssertionError(cons)

    return Harness(args, pre, case, fuel=400)


def big_view_nodes(wd, gfa, rep=1500):
    """index + view -n on a BGZF GAF of several blocks vs. its plain copy"""
    import pysam
    import gaftools.cli.view as V
    import gaftools.cli.index as I
    import gc

    gaf = os.path.join(wd, "big.gaf")
    with open(gaf, "w", encoding="utf-8") as fh:
        for j in range(rep):
            for l in LINES:
                f = l.rstrip("\n").split("\t")
                f[0] = f[0].split(" ")[0] + "x%d" % j
                fh.write("\t".join(f) + "\tzz:Z:" + "pad" * 10 + "\n")
    pysam.tabix_compress(gaf, gaf + ".gz", force=True)
    outs = []
    for g in (gaf, gaf + ".gz"):
        try:
            I.run(g, gfa)
            o = g + ".sel"
            V.run(g, output=o, nodes=["b0"])
            gc.collect()
            outs.append(open(o, encoding="utf-8").read().split("\n"))
        except BaseException as e:  # noqa
            return "index + view -n b0 on %s (%d records, several BGZF blocks) raised %s: %s" % (os.path.basename(g), rep * len(LINES), type(e).__name__, e)
    if outs[0] != outs[1]:
        return "view -n b0 returns %d records for the plain file and %d for its multi-block BGZF copy (first differing line %r)" % (
            len(outs[0]), len(outs[1]), next((y for x, y in zip(outs[0], outs[1]) if x != y), None))
    return None


def replay(params, model, wd):
    """real files: plain vs bgzip GAF / plain vs gzip GFA through the real CLI functions"""
    import gzip
    import pickle
    import pysam
    import gaftools.cli.view as V
    import gaftools.cli.index as I
    import gaftools.cli.sort as S
    import gaftools.cli.stat as ST
    import gaftools.cli.phase as P
    import gaftools.cli.find_path as FP
    import gaftools.cli.order_gfa as O
    from gaftools.gaf import GAF
    import gc

    cons = params["consumer"]
    seq = cons == "find_path"
    tagged = cons == "sort" or params["kind"] == "gaf"
    gfa = os.path.join(wd, "x.gfa")
    open(gfa, "w").write("".join(gfa_lines(tagged=tagged, seq=seq)))
    # the compressed copy is a gzip file of two members (what bgzip, pigz or `cat a.gz b.gz` produce): still one gzip stream
    gl = gfa_lines(tagged=tagged, seq=seq)
    with open(gfa + ".gz", "wb") as fh:
        fh.write(gzip.compress("".join(gl[:len(gl) // 2]).encode()))
        fh.write(gzip.compress("".join(gl[len(gl) // 2:]).encode()))
    lines = STABLE if cons == "index-stable" else LINES
    gaf = os.path.join(wd, "p.gaf")
    open(gaf, "w", encoding="utf-8").write("".join(lines))
    pysam.tabix_compress(gaf, os.path.join(wd, "z.bgzf.gaf"), force=True)
    zgaf = os.path.join(wd, "z.bgzf.gaf")

    def read(p):
        gc.collect()
        return open(p, encoding="utf-8").read().split("\n") if os.path.exists(p) else None

    def out(n):
        return os.path.join(wd, n)

    def offsets(path):
        return IF.real_offsets(path)

    try:
        pairs = []
        if params["kind"] == "gaf":
            if cons == "reader":
                a = [rec_fields(x) for x in GAF(gaf).read_file()]
                b = [rec_fields(x) for x in GAF(zgaf).read_file()]
                bad = a != b
                if not bad:
                    ga, gb = GAF(gaf), GAF(zgaf)
                    oa, ob = offsets(gaf), offsets(zgaf)
                    bad = any(rec_fields(ga.read_line(oa[i])) != a[i] or rec_fields(gb.read_line(ob[i])) != a[i] for i in (2, 0, 1))
                if bad:
                    return {"reproduced": True, "key": "C17:gaf:reader", "what": "GAF reader gives different records for plain / BGZF"}
                big = big_view_nodes(wd, gfa)
                return {"reproduced": bool(big), "key": "C17:gaf:reader:multi-block-bgzf", "what": big or "same records, also through offsets of a multi-block file"}
            if cons in ("index", "index-stable"):
                I.run(gaf, gfa, output=out("a.gvi"))
                I.run(zgaf, gfa, output=out("b.gvi"))
                da, db = pickle.load(open(out("a.gvi"), "rb")), pickle.load(open(out("b.gvi"), "rb"))
                oa, ob = offsets(gaf), offsets(zgaf)
                ra = {k: ([oa.index(o) for o in v] if k != "ref_contig" else v) for k, v in da.items()}
                rb = {k: ([ob.index(o) for o in v] if k != "ref_contig" else v) for k, v in db.items()}
                if ra != rb:
                    return {"reproduced": True, "key": "C17:gaf:" + cons, "what": "index resolves to %r (plain) vs %r (BGZF)" % (ra, rb)}
                # several BGZF blocks: the compressed file's offsets must still resolve to the right records
                recs = []
                for l in lines:
                    f = l.rstrip("\n").split("\t")
                    if ":" in f[5] or not f[5].startswith((">", "<")):
                        nodes = None if not f[5].startswith((">", "<")) else [n for n in IF.LAY if any(
                            t.split(":")[0][1:] == IF.LAY[n][0] and IF.LAY[n][1] < int(t.split(":")[1].split("-")[1]) and int(t.split(":")[1].split("-")[0]) < IF.LAY[n][1] + IF.LAY[n][2]
                            for t in __import__("re").findall(r"[<>][^<>]+", f[5]))]
                    else:
                        nodes = [t[1:] for t in __import__("re").findall(r"[<>][^<>]+", f[5])]
                    recs.append((f[5], int(f[6]), int(f[7]), int(f[8]), nodes))
                big = IF.big_bgzf_index(wd, recs)
                return {"reproduced": bool(big), "key": "C17:gaf:%s:multi-block-bgzf" % cons, "what": big or "same"}
            if cons == "sort":
                S.run_sort(gfa, gaf, outgaf=out("o1.gaf"))
                S.run_sort(gfa, zgaf, outgaf=out("o2.gaf"))
                S.run_sort(gfa, zgaf, outgaf=out("o3.gaf.gz"), bgzip=True)
                gc.collect()
                pairs = [(read(out("o1.gaf")), read(out("o2.gaf")))]
                z3 = [x.decode().rstrip("\n") for x in pysam.libcbgzf.BGZFile(out("o3.gaf.gz"), "rb")]
                pairs.append((read(out("o1.gaf")), z3))
            elif cons == "view-whole":
                V.run(gaf, output=out("o1"))
                V.run(zgaf, output=out("o2"))
                pairs = [(read(out("o1")), read(out("o2")))]
            elif cons == "view-format":
                V.run(gaf, gfa=gfa, output=out("o1"), format="stable")
                V.run(zgaf, gfa=gfa, output=out("o2"), format="stable")
                pairs = [(read(out("o1")), read(out("o2")))]
            elif cons == "view-nodes":
                I.run(gaf, gfa)
                I.run(zgaf, gfa)
                for i, q in enumerate((["s1"], ["b0", "s0"], ["a0"])):
                    V.run(gaf, output=out("o1%d" % i), nodes=list(q))
                    V.run(zgaf, output=out("o2%d" % i), nodes=list(q))
                    pairs.append((read(out("o1%d" % i)), read(out("o2%d" % i))))
            elif cons == "stat":
                for cg in (False, True):
                    ST.run_stat(gaf, cigar_stat=cg, output=out("o1%d" % cg))
                    ST.run_stat(zgaf, cigar_stat=cg, output=out("o2%d" % cg))
                    pairs.append((read(out("o1%d" % cg)), read(out("o2%d" % cg))))
            elif cons == "stat-same-path":
                import shutil

                for name, kinds in (("x.gaf", ("text", "bgzf")), ("y.gaf", ("bgzf", "text"))):
                    reps = []
                    for j, k in enumerate(kinds):
                        shutil.copyfile(gaf if k == "text" else zgaf, out(name))
                        ST.run_stat(out(name), cigar_stat=True, output=out("%s.o%d" % (name, j)))
                        reps.append(read(out("%s.o%d" % (name, j))))
                    pairs.append((reps[0], reps[1]))
            elif cons == "phase":
                open(out("h.tsv"), "w").write("r0\tH1\t7\tchr1\nr2\tnone\tnone\tchr1\n")
                P.run(gaf, out("h.tsv"), out("o1"))
                P.run(zgaf, out("h.tsv"), out("o2"))
                pairs = [(read(out("o1")), read(out("o2")))]
            for a, b in pairs:
                if a != b or a is None:
                    return {"reproduced": True, "key": "C17:gaf:" + cons, "what": "%s: plain %r vs BGZF %r" % (cons, a, b)}
            if cons in ("view-nodes", "reader"):
                big = big_view_nodes(wd, gfa)
                if big:
                    return {"reproduced": True, "key": "C17:gaf:%s:multi-block-bgzf" % cons, "what": big}
            return {"reproduced": False, "detail": "same results"}
        gz = gfa + ".gz"
        if cons == "view-format":
            V.run(gaf, gfa=gfa, output=out("o1"), format="stable")
            V.run(gaf, gfa=gz, output=out("o2"), format="stable")
            pairs = [(read(out("o1")), read(out("o2")))]
        elif cons == "index-stable":
            I.run(gaf, gfa, output=out("a.gvi"))
            I.run(gaf, gz, output=out("b.gvi"))
            pairs = [(pickle.load(open(out("a.gvi"), "rb")), pickle.load(open(out("b.gvi"), "rb")))]
        elif cons == "sort":
            S.run_sort(gfa, gaf, outgaf=out("o1"))
            S.run_sort(gz, gaf, outgaf=out("o2"))
            pairs = [(read(out("o1")), read(out("o2")))]
        elif cons == "find_path":
            open(out("paths.txt"), "w").write(">s0>s1\n<s2>b0\n>s1<b0>s2\n")
            FP.run(gfa, out("paths.txt"), output=out("o1"), fasta=True)
            FP.run(gz, out("paths.txt"), output=out("o2"), fasta=True)
            pairs = [(read(out("o1")), read(out("o2")))]
        else:
            by = cons.endswith("bychrom")
            O.run_order_gfa(gfa, out("d1"), by, chromosome_order="chr1", with_sequence=False)
            O.run_order_gfa(gz, out("d2"), by, chromosome_order="chr1", with_sequence=False)
            f1, f2 = sorted(os.listdir(out("d1"))), sorted(os.listdir(out("d2")))
            if f1 != f2:
                return {"reproduced": True, "key": "C17:graph:order_gfa:file-names", "what": "order_gfa%s writes %r for x.gfa but %r for x.gfa.gz" % (
                    " --by-chrom" if by else "", f1, f2)}
            pairs = [(read(os.path.join(out("d1"), n)), read(os.path.join(out("d2"), n))) for n in f1]
        for a, b in pairs:
            if a != b or a is None:
                return {"reproduced": True, "key": "C17:graph:" + cons, "what": "%s: x.gfa gives %r, x.gfa.gz gives %r" % (cons, a, b)}
        return {"reproduced": False, "detail": "same results"}
    except BaseException as e:  # noqa
        return {"reproduced": True, "key": "C17:%s:%s:exception:%s" % (params["kind"], cons, type(e).__name__), "what": "%s: %s" % (type(e).__name__, e)}
