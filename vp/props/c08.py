"""C08 — sort orders alignments by (BO, NO, start) as a total order."""
import itertools
import os
from collections import namedtuple

from . import sortfam as F
from ..engine import Harness, Direct
from . import tokfam

ID = "C08"
setup = F.setup

META = {
    "level": "other",
    "functions": {"gaftools.cli.sort": ["sort", "process_alignment", "compare_gaf", "write_to_file"]},
    "explanation": "Bounded symbolic execution (CrossHair/z3) of the real gaftools.cli.sort code. (a) compare_gaf on "
    "two fully symbolic records: sign agrees with the reference key (BO==-1, BO, NO, start, offset) for every integer "
    "value - this implies antisymmetry and transitivity; (b) process_alignment on enumerated path shapes with symbolic "
    "BO/NO tags and offsets against an independent restatement of the anchor rule; (c) sort.sort end to end on a model "
    "file with n records whose keys are all symbolic, so every permutation of every multiset of n keys is one harness.",
    "bounds": {
        "quick": "pair harness: unbounded ints; process_alignment: paths of <=3 steps over 3 nodes; sort.sort: n<=3 "
                 "records, path menu of 8 shapes",
        "thorough": "as quick plus n=4 records and BGZF reader/writer variants",
    },
    "out": ["n > 4 records", "stable (contig-form) paths", "timsort merge phase (n >= 64) beyond what pairwise "
            "agreement of the comparator implies", "relative order among records anchored on untagged nodes"],
    "assumptions": ["model file system: tell() returns an opaque strictly increasing cookie, seek(cookie) positions at "
                    "that record (DESIGN 3.2)", "StageTimer/logger are no-ops", "node tags are read as decimal "
                    "renderings of the symbolic integers (FieldStr)"],
}
META["explanation"] += '  sort2-second-graph-in-process: the same records sorted against another build of the graph (same names, other tags) earlier in the same execution.  tokens/cli/sort.py: the path tokenizer decided as a language by z3.'
META["explanation"] += "  cmp/pair-large-tags and sort2-large-tags: every tag >= 300 (beyond CPython's small-integer cache)."

PATH_MENU = [">s1", "<s1", ">s1>x1", "<x1<s1", ">x1>s2", ">s1>x1>s2", "<s2<x1<s1", ">s1<s2", ">x1", ">t1", ">s1<x1<s2"]


def harnesses(tier):
    hs = []
    hs.append({"id": "cmp/pair", "params": {"kind": "pair"}, "timeout": 120, "twin": True})
    # the same with BO/NO beyond CPython's small-integer cache (equal values are then different objects)
    hs.append({"id": "cmp/pair-large-tags", "params": {"kind": "pair", "large": True}, "timeout": 120})
    hs.append({"id": "sort2-large-tags/>s1+>x1", "params": {"kind": "sort", "paths": [">s1", ">x1"], "large": True, "scaffold_ref": False}, "timeout": 200})
    shapes = [">s1", "<s1", ">x1", ">s1>x1", "<x1<s1", ">s1<s2", "<s1<s2>x1", ">x1<s1<s2", ">s1>x1>s2", "<s2<x1<s1",
              ">s1<x1>s2", "<s1>s2"]
    for sh in shapes:
        hs.append({"id": "anchor/" + sh, "params": {"kind": "anchor", "path": sh}, "timeout": 120,
                   "twin": sh == ">s1>x1>s2"})
    combos2 = [(">s1", ">s1"), (">s1", ">x1"), (">x1", ">s2"), ("<s1", ">s1>x1"), (">s1>x1", "<x1<s1")]
    for c in combos2:
        hs.append({"id": "sort2/" + "+".join(c), "params": {"kind": "sort", "paths": list(c)}, "timeout": 150,
                   "twin": c == (">s1", ">x1")})
    hs.append({"id": "sort2-second-graph-in-process/>s1>x1+<s2", "params": {"kind": "sort", "paths": [">s1>x1", "<s2"], "prior": True}, "timeout": 300})
    combos3 = [(">s1", ">s1", ">s1"), (">s1>x1", "<s2", ">x1"), (">s1", ">x1", "<s1")]
    if tier == "thorough":
        combos3 += [(">x1", ">x1", ">s1"), ("<s2<x1<s1", ">s1", ">x1>s2"), (">s1", ">s2", ">t1")]
    for c in combos3:
        hs.append({"id": "sort3/" + "+".join(c), "params": {"kind": "sort", "paths": list(c)},
                   "timeout": 300 if tier == "quick" else 900})
    if tier == "thorough":
        hs.append({"id": "sort3gz/" + ">s1+>x1+<s1", "params": {"kind": "sort", "paths": [">s1", ">x1", "<s1"],
                                                                "gz_in": True, "gz_out": True}, "timeout": 900})
        hs.append({"id": "sort4/>s1*4", "params": {"kind": "sort", "paths": [">s1"] * 4, "scaffold_ref": False},
                   "timeout": 2400, "path_timeout": 120})
    hs.append(tokfam.harness("C08", "gaftools/cli/sort.py"))
    return hs


Al = namedtuple("Alignment", ["offset", "BO", "NO", "start", "inv", "sn"])


def _sign(x):
    return -1 if x < 0 else (1 if x > 0 else 0)


def build(params):
    if params.get("kind") == "tokens":
        return Direct(lambda: tokfam.run(params))
    kind = params["kind"]
    if kind == "pair":
        args = [(n, "int") for n in ("o1", "b1", "n1", "s1", "o2", "b2", "n2", "s2")]
        pre = ["o1 >= 0 and o2 >= 0 and o1 != o2", "b1 >= -1 and b2 >= -1 and n1 >= -1 and n2 >= -1",
               "s1 >= 0 and s2 >= 0"]
        if params.get("large"):
            pre.append("b1 >= 300 and b2 >= 300 and n1 >= 300 and n2 >= 300 and s1 >= 300 and s2 >= 300")

        def case(o1, b1, n1, s1, o2, b2, n2, s2):
            S = F.M["S"]
            r = S.compare_gaf(Al(o1, b1, n1, s1, 0, "chr1"), Al(o2, b2, n2, s2, 0, "chr1"))
            if r is None:
                return "compare_gaf returned None for distinct records"
            k1 = F.refkey(b1, n1, s1, 0)
            k2 = F.refkey(b2, n2, s2, 0)
            if k1[0] == 1 and k2[0] == 1:
                return None if r != 0 else "zero for distinct untagged records"
            if k1 == k2:
                want = -1 if o1 < o2 else 1
            else:
                want = -1 if k1 < k2 else 1
            if _sign(r) != want:
                return "compare_gaf sign %d, reference order says %d" % (_sign(r), want)
            return None

        return Harness(args, pre, case)
    if kind == "anchor":
        path = params["path"]
        used = sorted({n for _, n in F.tokens(path)})
        args = []
        pre = []
        for nid in used:
            args += [("bo_" + nid, "int"), ("no_" + nid, "int")]
            pre.append("bo_%s >= -1 and no_%s >= -1" % (nid, nid))
        args += [("pl", "int"), ("ps", "int"), ("pe", "int"), ("off", "int")]
        pre.append("0 <= ps < pe <= pl and off >= 0")

        def case(*a):
            S = F.M["S"]
            it = iter(a)
            tags = {nid: (next(it), next(it)) for nid in used}
            pl, ps, pe, off = next(it), next(it), next(it), next(it)
            nodes = {nid: F.mk_node(nid, *tags[nid]) for nid in used}
            line = F.build_lines([path], [(pl, ps, pe)])[0].rstrip().split("\t")
            got = S.process_alignment(line, nodes, off)
            want = F.expected(path, tags, pl, ps, pe)
            names = ("BO", "NO", "start", "inv", "sn")
            for g, w, nm in zip(got, want, names):
                if not (g == w):
                    return "process_alignment %s differs from the anchor rule" % nm
            return None

        return Harness(args, pre, case)
    return F.build_sort(params, "C08")


# ------------------------------------------------------------------------------------------


def replay(params, model, wd):
    if params.get("kind") == "tokens":
        return tokfam.replay(params, model, wd)
    kind = params["kind"]
    if kind == "pair":
        o1, b1, n1, s1, o2, b2, n2, s2 = model["args"]
        # two records on two nodes carrying the keys; try both file orders through the real CLI
        tags = {"s1": (b1, n1), "x1": (b2, n2)}
        save = dict(F.NODES)
        paths = [">s1", ">x1"]
        nums = [(500, s1, s1 + 1), (500, s2, s2 + 1)]
        for order in ([0, 1], [1, 0]):
            lines, outl, offs, idx, err = F.real_sort(wd, paths, tags, nums, order=order)
            if err and "KeyError: 'unknown'" not in err:
                return {"reproduced": True, "key": "C08:sort:exception", "what": "run_sort raised " + err, "level": "cli"}
            v = F.concrete_order_violation(paths, tags, nums, outl)
            if v:
                fp = F.fingerprint_order(paths, tags, nums, 0, 1)
                return {"reproduced": True, "key": "C08:order:" + fp, "what": v, "level": "cli",
                        "files": {"gaf": lines, "graph_tags": tags, "output": outl}}
        import gaftools.cli.sort as S

        r = S.compare_gaf(Al(o1, b1, n1, s1, 0, "c"), Al(o2, b2, n2, s2, 0, "c"))
        k1, k2 = F.refkey(b1, n1, s1, 0), F.refkey(b2, n2, s2, 0)
        if r is None:
            return {"reproduced": True, "key": "C08:cmp:none", "what": "compare_gaf returns None", "level": "unit"}
        if k1[0] == 1 and k2[0] == 1:
            return {"reproduced": False, "detail": "untagged pair"}
        want = (-1 if o1 < o2 else 1) if k1 == k2 else (-1 if k1 < k2 else 1)
        if _sign(r) != want:
            return {"reproduced": True, "key": "C08:cmp:" + F.fingerprint_order(paths, tags, nums, 0, 1),
                    "what": "compare_gaf(%r,%r) = %r, reference order %d (visible to list.sort only when the "
                            "earlier record is passed first, i.e. in merges of >= 64 records)" % (
                                (o1, b1, n1, s1), (o2, b2, n2, s2), r, want), "level": "unit"}
        return {"reproduced": False, "detail": "real compare_gaf agrees with the reference"}
    if kind == "anchor":
        path = params["path"]
        used = sorted({n for _, n in F.tokens(path)})
        it = iter(model["args"])
        tags = {nid: (next(it), next(it)) for nid in used}
        pl, ps, pe, off = next(it), next(it), next(it), next(it)
        lines, outl, offs, idx, err = F.real_sort(wd, [path], tags, [(pl, ps, pe)])
        want = F.expected(path, tags, pl, ps, pe)
        if err and "KeyError: 'unknown'" not in err:
            return {"reproduced": True, "key": "C08:anchor:exception:" + err.split(":")[0], "what": err, "level": "cli"}
        import gaftools.cli.sort as S
        import gaftools.gfa as G

        g = G.GFA(F.write_graph(wd, tags), low_memory=True)
        got = S.process_alignment(lines[0].split("\t"), g.nodes, off)
        if tuple(got) != tuple(want):
            return {"reproduced": True, "key": "C08:anchor:" + path, "what": "process_alignment -> %r, anchor rule "
                    "says %r" % (got, want), "level": "unit"}
        # the symbolic run evaluates many graphs in one process: replay the same history (another build of the graph first)
        os.makedirs(os.path.join(wd, "other"), exist_ok=True)
        g0 = G.GFA(F.write_graph(os.path.join(wd, "other"), {k: (b + 3, n + 1) for k, (b, n) in tags.items()}), low_memory=True)
        S.process_alignment(lines[0].split("\t"), g0.nodes, off)
        got = S.process_alignment(lines[0].split("\t"), g.nodes, off)
        if tuple(got) != tuple(want):
            return {"reproduced": True, "key": "C08:anchor:state-kept-between-graphs", "what": "process_alignment -> %r after the same "
                    "record was processed against another build of the graph in the same process; anchor rule says %r" % (got, want), "level": "unit"}
        return {"reproduced": False, "detail": "anchor rule agrees"}
    used, tags, nums = F.decode_sort(params, model)
    paths = params["paths"]
    lines, outl, offs, idx, err = F.real_sort(wd, paths, tags, nums, params.get("gz_in"), params.get("gz_out"), prior=bool(params.get("prior")))
    if err and "KeyError: 'unknown'" not in err:
        return {"reproduced": True, "key": "C08:sort:exception:" + err.split(":")[0], "what": "run_sort raised " + err,
                "level": "cli"}
    v = F.concrete_order_violation(paths, tags, nums, outl)
    if v:
        n = len(paths)
        idxs = [int(l.split("\t")[0][1:]) for l in outl]
        fp = "?"
        keys = [F.refkey(*F.expected(paths[i], tags, *nums[i])[:3], i) for i in range(n)]
        for a in range(n - 1):
            if keys[idxs[a]] >= keys[idxs[a + 1]] and not (keys[idxs[a]][0] == 1 and keys[idxs[a + 1]][0] == 1):
                fp = F.fingerprint_order(paths, tags, nums, idxs[a], idxs[a + 1])
                break
        return {"reproduced": True, "key": "C08:order:" + fp, "what": v, "level": "cli",
                "files": {"gaf": lines, "graph_tags": tags, "output": outl}}
    return {"reproduced": False, "detail": "real run_sort output is in reference order", "output": outl}
