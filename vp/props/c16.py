"""C16 — GAF optional fields survive parsing and re-serialisation verbatim."""
import ast
import itertools
import json
import os
import subprocess
import tempfile

from .. import rt, stubs, loader
from ..engine import Harness, Direct

ID = "C16"
M = {}

META = {
    "level": "other",
    "functions": {"gaftools.gaf": ["GAF.parse_gaf_line", "Alignment.__str__"], "gaftools.conversion": ["to_stable", "to_unstable"],
                  "gaftools.cli.realign": ["wfa_alignment"], "gaftools.cli.view": ["run"]},
    "technique": "direct SMT (z3 sequence/regex theory, second opinion by z3 4.8.12 binary) over the regex literals read from "
                 "parse_gaf_line's AST + bounded symbolic execution (CrossHair/z3) of the emitters",
    "explanation": "E2: the regular-expression literals and the field range of the tag scanner are read from parse_gaf_line's AST on "
    "every run and translated to z3 regular expressions (vp/rx.py).  For every SAM type the solver is asked for a field "
    "TAG:TYPE:VALUE, well-formed per utils.types_regex (the independent oracle), |VALUE| <= 8, that the scanner skips, files "
    "under a different key, or whose captured value is a proper prefix of VALUE; and for a read name (no blanks) that the "
    "scanner mistakes for a tag.  unsat = holds for every such field; sat = witness, replayed through `view --format`.  "
    "Every answer is obtained from z3 (wheel) and from the z3 4.8.12 binary on the dumped SMT-LIB; disagreement/unknown is "
    "inconclusive.  E1: CrossHair executes parse_gaf_line + each emitter (Alignment.__str__ via view -n, to_stable, to_unstable, "
    "wfa_alignment both branches) on records whose optional fields are chosen by symbolic selectors from a menu of tricky "
    "well-formed fields (negative ints, signed/exponent floats, Z with punctuation and blanks, A, B arrays, H), with and "
    "without cg, with repeated tags: output fields = input fields in order, cg rewritten in place, nothing invented, ds dropped.",
    "bounds": {"quick": "E2: |VALUE| <= 8, read name <= 10 chars; E1: 2 optional-field slots from a menu of 9 (+cg/no-cg, repeated tag) per emitter",
               "thorough": "E2: |VALUE| <= 12; E1: 3 slots"},
    "out": ["values longer than the bound (the scanner patterns are star-free in the value, so length adds no behaviour, but this is "
            "not proved)", "non-ASCII other than the characters of the menus", "read-name / value characters outside the stated menus", "mandatory numeric columns with leading zeros", "white space at the very end of the line (the last column is right-stripped by the reader)"],
    "assumptions": ["E2 models the scanner's control flow by one of two skeletons detected in the AST (three findall calls guarded by "
                    "re.match, or one re.match with two groups); any other shape is reported inconclusive",
                    "stub aligner for the realign emitter"],
}
META["explanation"] += '  value-characters / name-characters: two characters of a Z value (menu % s : blank backslash { 0x1f e-acute * =) and of the read name (menu blank 0x1f NBSP % : | VT s) chosen by the solver, per emitter; the read name must come out cut at its first blank and only there.'
META["explanation"] += "  no-final-newline variants per emitter; the read name's first character comes from the menu (none @ # > < * = H)."

MENU = ["tp:A:S", "ws:Z:trailing ", "ds:i:7", "NM:i:-3", "dv:f:-1.5e-3", "zd:Z:a b_#.-:*/", "ba:B:i,1,-2", "ch:A:*", "hx:H:1AE3", "id:f:.5", "s1:i:12"]
TYPES = "AifZHB"


def setup():
    import gaftools.gaf as GA
    import gaftools.cli.view as V
    import gaftools.conversion as CV
    import gaftools.cli.realign as R
    import gaftools.gfa as G

    M.update(GA=GA, V=V, CV=CV, R=R, G=G)


def harnesses(tier):
    hs = []
    vmax = 8 if tier == "quick" else 12
    for t in TYPES:
        hs.append({"id": "scan/type-%s" % t, "params": {"kind": "scan", "type": t, "vmax": vmax}, "timeout": 300})
    hs.append({"id": "scan/invented-from-readname", "params": {"kind": "invent", "col": "name"}, "timeout": 300})
    hs.append({"id": "scan/invented-from-path", "params": {"kind": "invent", "col": "path"}, "timeout": 300})
    slots = 2 if tier == "quick" else 3
    for em in ("view-n", "to_stable", "to_unstable", "realign", "realign-long"):
        for cg in ("cg-first", "cg-last", "no-cg"):
            hs.append({"id": "emit/%s/%s" % (em, cg), "params": {"kind": "emit", "emitter": em, "cg": cg, "slots": slots}, "timeout": 900,
                       "twin": (em, cg) == ("view-n", "cg-first")})
        hs.append({"id": "emit/%s/repeated-tag" % em, "params": {"kind": "emit", "emitter": em, "cg": "cg-last", "slots": 0, "repeat": True}, "timeout": 300})
        hs.append({"id": "emit/%s/value-characters" % em, "params": {"kind": "emit", "emitter": em, "cg": "cg-last", "slots": 0, "chars": "value"}, "timeout": 600})
        hs.append({"id": "emit/%s/name-characters" % em, "params": {"kind": "emit", "emitter": em, "cg": "cg-last", "slots": 0, "chars": "name"}, "timeout": 600})
        hs.append({"id": "emit/%s/no-final-newline" % em, "params": {"kind": "emit", "emitter": em, "cg": "no-cg", "slots": 1, "nonl": True}, "timeout": 300})
        hs.append({"id": "emit/%s/ds-tag" % em, "params": {"kind": "emit", "emitter": em, "cg": "cg-last", "slots": 0, "ds": True}, "timeout": 300})
    return hs


# ------------------------------------------------------------------------------------------
# E2: the scanner read from the AST


def scanner_shape():
    path = os.path.join(loader.REPO, "gaftools", "gaf.py")
    tree = ast.parse(open(path).read())
    fn = [n for n in ast.walk(tree) if isinstance(n, ast.FunctionDef) and n.name == "parse_gaf_line"]
    if not fn:
        return {"error": "parse_gaf_line not found"}
    loops = [n for n in ast.walk(fn[0]) if isinstance(n, ast.For)]
    cand = None
    for lp in loops:
        calls = [c for c in ast.walk(lp) if isinstance(c, ast.Call) and isinstance(c.func, ast.Attribute) and isinstance(c.func.value, ast.Name)
                 and c.func.value.id == "re"]
        if calls:
            cand = (lp, calls)
            break
    if cand is None:
        return {"error": "no loop with regex calls in parse_gaf_line"}
    lp, calls = cand
    start = None
    it = lp.iter
    if isinstance(it, ast.Name):
        start = 0
    elif isinstance(it, ast.Subscript) and isinstance(it.slice, ast.Slice) and it.slice.upper is None and it.slice.step is None:
        lo = it.slice.lower
        start = 0 if lo is None else (lo.value if isinstance(lo, ast.Constant) and isinstance(lo.value, int) else None)
    if start is None:
        return {"error": "cannot determine which fields are scanned: %s" % ast.dump(it)}
    pats = []
    for c in sorted(calls, key=lambda c: (c.lineno, c.col_offset)):
        if not c.args or not isinstance(c.args[0], ast.Constant) or not isinstance(c.args[0].value, str):
            return {"error": "regex call without literal pattern at line %d" % c.lineno}
        pats.append((c.func.attr, c.args[0].value, c.lineno))
    src = ast.get_source_segment(open(path).read(), lp)
    return {"start": start, "calls": pats, "line": lp.lineno, "drops_ds": "ds:Z:" in src}


def second_opinion(solver, expect):
    """run the same query through the z3 4.8.12 binary"""
    smt = solver.to_smt2()
    wd = os.path.join(os.environ.get("VP_HOME", "."), "work")
    os.makedirs(wd, exist_ok=True)
    fd, p = tempfile.mkstemp(suffix=".smt2", dir=wd)
    os.write(fd, smt.encode())
    os.close(fd)
    try:
        out = subprocess.run(["/usr/bin/z3", "-smt2", "-T:120", p], capture_output=True, text=True, timeout=150).stdout
    except Exception as e:
        out = "error %r" % (e,)
    finally:
        os.remove(p)
    first = out.strip().splitlines()[0] if out.strip() else "none"
    if "(error" in out:
        return "error"
    return first


def run_scan(params):
    import z3
    from .. import rx

    sh = scanner_shape()
    if "error" in sh:
        return {"verdict": "inconclusive", "cx_message": sh["error"]}
    calls = sh["calls"]
    import gaftools.utils as U

    S = z3.StringSort()
    full = z3.Full(z3.ReSort(S))
    alpha = z3.Union(z3.Range("A", "Z"), z3.Range("a", "z"))
    alnum = z3.Union(alpha, z3.Range("0", "9"))
    try:
        if len(calls) == 4 and [c[0] for c in calls] == ["match", "findall", "findall", "findall"]:
            d = [rx.decompose(c[1]) for c in calls]
            d1, d2, d3, d4 = d
            if not (len(d2["x"]) == 5 and len(d4["x"]) == 5 and d2["groups"] == [(0, 5)] and d4["groups"] == [(5, 6)]):
                return {"verdict": "inconclusive", "cx_message": "findall patterns do not have the shape (TAG:TYPE:)VALUE+ / TAG:TYPE:(VALUE+)"}
            skeleton = "A"
        elif len(calls) == 1 and calls[0][0] == "match":
            d = [rx.decompose(calls[0][1])]
            d1 = d[0]
            if not (d1["groups"] == [(0, len(d1["x"])), (len(d1["x"]), len(d1["x"]) + 1)]):
                return {"verdict": "inconclusive", "cx_message": "single match pattern does not have two groups (KEY)(VALUE*)"}
            skeleton = "B"
        else:
            return {"verdict": "inconclusive", "cx_message": "tag scanner has an unknown shape: %r" % ([c[0] for c in calls],)}
    except rx.NotTranslatable as e:
        return {"verdict": "inconclusive", "cx_message": "regex not translatable: %s" % e}

    def lang(dd, open_end):
        parts = [rx.x_re(dd["x"]), rx.y_re(dd["y"], dd["ymin"])]
        if open_end and not dd["end"]:
            parts.append(full)
        return z3.Concat(*parts)

    s = z3.Solver()
    s.set("timeout", 120000)
    what = None
    if params["kind"] == "scan":
        t = params["type"]
        tag = z3.String("tag")
        v = z3.String("v")
        s.add(z3.InRe(tag, z3.Concat(alpha, alnum)))
        s.add(z3.InRe(v, rx.to_z3(U.types_regex[t])))
        s.add(z3.Length(v) <= params["vmax"])
        if t == "Z":
            s.add(tag != z3.StringVal("cg"))
            s.add(tag != z3.StringVal("ds"))  # documented exception: the ds:Z tag may be dropped
        field = z3.Concat(tag, z3.StringVal(":" + t + ":"), v)
        if sh["start"] > 12:
            return {"verdict": "refuted", "fail": {"args": ["xx:%s:%s" % (t, "1" if t in "ifH" else "c" if t == "B" else "a")],
                                                   "reason": "scanner starts at field %d: the first optional field is never parsed" % sh["start"]}}
        if skeleton == "A":
            m1 = z3.InRe(field, lang(d1, True))
            m2 = z3.InRe(field, lang(d2, True))
            m4 = z3.InRe(field, lang(d4, True))
            keyok = z3.InRe(z3.SubString(field, 0, 5), rx.x_re(d2["x"]))
            whole = z3.InRe(v, rx.y_re(d4["y"], 0))
            preserved = z3.And(m1, m2, m4, keyok, whole)
        else:
            m = z3.InRe(field, lang(d1, True))
            klen = len(d1["x"])
            whole = z3.InRe(v, rx.y_re(d1["y"], 0))
            preserved = z3.And(m, z3.BoolVal(klen == 5), whole)
        s.add(z3.Not(preserved))
        target = field
        what = "well-formed %s field lost or truncated by the scanner" % t
    else:
        if sh["start"] >= 12:
            return {"verdict": "confirmed", "paths": 1, "reached": 1, "note": "scanner only looks at fields[%d:]" % sh["start"], "queries": 0}
        name = z3.String("name")
        if params["col"] == "name":
            s.add(z3.InRe(name, z3.Loop(z3.Range("!", "~"), 1, 10)))
        else:
            if sh["start"] > 5:
                return {"verdict": "confirmed", "paths": 1, "reached": 1, "note": "path column is not scanned", "queries": 0}
            s.add(z3.InRe(name, z3.Loop(z3.Union(z3.Range("!", ";"), z3.Re("="), z3.Range("?", "~")), 1, 10)))
        if sh["start"] > 0 and params["col"] == "name":
            return {"verdict": "confirmed", "paths": 1, "reached": 1, "note": "read name is not scanned", "queries": 0}
        s.add(z3.InRe(name, lang(d1, True)))
        target = name
        what = "mandatory column mistaken for an optional field"
    r = s.check()
    r2 = second_opinion(s, str(r))
    info = {"queries": 2, "z3": str(r), "z3_4_8_12": r2, "skeleton": skeleton, "patterns": [c[1] for c in calls], "scanned_from": sh["start"]}
    if str(r) == "unknown" or r2 not in ("sat", "unsat") or r2 != str(r):
        return dict(info, verdict="inconclusive", cx_message="solvers: z3=%s z3-4.8.12=%s" % (r, r2))
    if str(r) == "unsat":
        return dict(info, verdict="confirmed", paths=1, reached=1)
    w = s.model().eval(target, model_completion=True).as_string()
    return dict(info, verdict="refuted", fail={"args": [w], "reason": what + ": " + repr(w)})


# ------------------------------------------------------------------------------------------
# E1: emitters


def pick(sel, options):
    for i, o in enumerate(options):
        if sel == i:
            return o
    return options[-1]


GFA_LINES = ["S\ts1\tACGTACGTAC\tLN:i:10\tSN:Z:chr1\tSO:i:0\tSR:i:0\n", "S\ts2\tGGGTT\tLN:i:5\tSN:Z:chr1\tSO:i:10\tSR:i:0\n", "L\ts1\t+\ts2\t+\t0M\n"]


class StubRes:
    cigartuples = [(0, 6), (8, 1), (0, 3)]


class StubAligner:
    cigarstring = "6M1X3M"

    def __init__(self, ref):
        pass

    def __call__(self, q, clip_cigar=False):
        return StubRes()


CH = ["%", "s", ":", " ", chr(92), "{", chr(0x1f), chr(0xe9), "*", "="]
NAMECH = [" ", chr(0x1f), chr(0xa0), "%", ":", "|", chr(0x0b), "s"]
FIRSTCH = ["", "@", "#", ">", "<", "*", "=", "H"]  # first character of the read name (FASTQ '@', comment and record-type characters)
NAME = ["r1"]
NONL = [False]  # the record is the last line of a file that does not end in a newline


def out_name():
    """the documented exception: the read name is cut at its first blank (and only there)"""
    return NAME[0].split(" ")[0]


def build_opt(params, a, pick_):
    """optional fields (and, as a side effect, the read name) of the harness instance chosen by the selector values a"""
    NAME[0] = "r1"
    NONL[0] = bool(params.get("nonl"))
    slots = params["slots"]
    opt = []
    for i in range(slots):
        x = pick_(a[i], MENU + [None])
        if x is not None and x not in opt:
            opt.append(x)
    if params.get("repeat"):
        opt = ["xx:i:1", "yy:Z:mid", "xx:i:2"]
    if params.get("ds"):
        opt = ["tp:A:P", "ds:Z::3*at:5", "NM:i:0"]
    if params.get("chars") == "value":
        opt = ["NM:i:1", "zz:Z:a" + pick_(a[0], CH) + pick_(a[1], CH) + "b", "yy:Z:" + pick_(a[1], CH) + pick_(a[0], CH)]
    if params.get("chars") == "name":
        NAME[0] = pick_(a[1], FIRSTCH) + "rd" + pick_(a[0], NAMECH) + "x" + pick_(a[1], NAMECH) + "y"
        opt = ["NM:i:1"]
    if params["cg"] == "cg-first":
        opt = ["cg:Z:10="] + opt
    elif params["cg"] == "cg-last":
        opt = opt + ["cg:Z:10="]
    return opt


def emit(emitter, opt):
    """returns the list of optional fields of the re-emitted record"""
    V, CV, R, GA = M["V"], M["CV"], M["R"], M["GA"]
    e = stubs.env()
    qe = 70000 if emitter == "realign-long" else 10
    if emitter == "to_unstable":
        cols = "%s\t%d\t0\t%d\t-\tchr1\t15\t2\t12\t9\t10\t60" % (NAME[0], qe + 5, qe)
    else:
        cols = "%s\t%d\t0\t%d\t+\t<s2<s1\t15\t3\t13\t9\t10\t60" % (NAME[0], qe + 5, qe)
    line = cols + "".join("\t" + x for x in opt) + ("" if NONL[0] else "\n")
    e.files["in.gaf"] = stubs.MFile("text", [line], [0, 100])
    e.files["g.gfa"] = stubs.MFile("text", GFA_LINES, None)
    if emitter == "view-n":
        e.pickles["in.gaf.gvi"] = {("s1", "chr1", 0, 10): [0], "ref_contig": ["chr1"]}
        e.files["in.gaf.gvi"] = stubs.MFile("text", [], None)
        V.run("in.gaf", output="o.gaf", index="in.gaf.gvi", nodes=["s1"])
    elif emitter == "to_stable":
        V.run("in.gaf", gfa="g.gfa", output="o.gaf", format="stable")
    elif emitter == "to_unstable":
        V.run("in.gaf", gfa="g.gfa", output="o.gaf", format="unstable")
    else:
        g = GA.GAF("in.gaf")
        al = next(iter(g.read_file()))

        class Q:
            items = []

            def put(self, x):
                Q.items.append(x)

        Q.items = []
        R.WavefrontAligner = StubAligner
        R.wfa_alignment([(al, "ACGTACGTAC", "ACGTACTTAC", 0)], Q())
        e.files["o.gaf"] = stubs.MFile("text", [Q.items[0].seq], None)
    out = e.files["o.gaf"].lines
    if len(out) != 1:
        return None, "emitter wrote %d lines" % len(out)
    f = out[0].rstrip("\n").split("\t")
    return f, None


def expected_fields(emitter, opt):
    """input optional fields in order; ds dropped; cg value may change; realign may add cg at the end"""
    want = [x for x in opt if not x.startswith("ds:Z:")]
    if opt and want and want[-1] == opt[-1]:
        # the reader strips white space at the end of the LINE, so a trailing blank of the last column is not part of the
        # record as gaftools sees it (stated outside the claim); inside the line it must survive
        want[-1] = want[-1].rstrip()
    return want


def check_emit(emitter, opt):
    f, err = emit(emitter, opt)
    if err:
        return err
    if f[0] != out_name():
        return "read name %r re-emitted as %r" % (NAME[0], f[0])
    got = [x for x in f[12:] if not x.startswith("ds:Z:")]  # the ds:Z tag may be dropped (documented) or kept
    want = expected_fields(emitter, opt)
    hascg = any(x.startswith("cg:Z:") for x in want)
    if emitter.startswith("realign") and not hascg and emitter != "realign-long":
        # realign's purpose is to write a CIGAR: when the input had none it is appended
        if not got or not got[-1].startswith("cg:Z:"):
            return "realign did not emit a CIGAR"
        got = got[:-1]
    if len(got) != len(want):
        return "optional fields %r re-emitted as %r" % (opt, f[12:])
    for g, w in zip(got, want):
        if w.startswith("cg:Z:"):
            if not g.startswith("cg:Z:"):
                return "cg field not kept in place: %r -> %r" % (opt, f[12:])
        elif g != w:
            return "optional field %r re-emitted as %r" % (w, g)
    return None


def build(params):
    kind = params["kind"]
    if kind in ("scan", "invent"):
        return Direct(lambda: run_scan(params))
    em = params["emitter"]
    slots = params["slots"]
    args = [("t%d" % i, "int") for i in range(slots)]
    pre = ["0 <= t%d <= %d" % (i, len(MENU)) for i in range(slots)]
    if params.get("chars"):
        n = len(CH if params["chars"] == "value" else NAMECH) - 1
        args = [("c0", "int"), ("c1", "int")]
        pre = ["0 <= c0 <= %d and 0 <= c1 <= %d" % (n, n)]

    def case(*a):
        opt = build_opt(params, a, pick)
        return check_emit(em, opt)

    return Harness(args, pre, case, fuel=50)


# ------------------------------------------------------------------------------------------


def real_view_roundtrip(wd, line, fmt="stable"):
    import gaftools.cli.view as V

    gfa = os.path.join(wd, "g.gfa")
    open(gfa, "w").write("".join(GFA_LINES))
    gaf = os.path.join(wd, "in.gaf")
    open(gaf, "w").write(line + "\n")
    out = os.path.join(wd, "o.gaf")
    err = None
    try:
        V.run(gaf, gfa=gfa, output=out, format=fmt)
    except BaseException as e:  # noqa
        err = "%s: %s" % (type(e).__name__, e)
    import gc

    gc.collect()
    return (open(out).read().splitlines() if os.path.exists(out) else []), err


def classify(field):
    t = field[3]
    v = field[5:]
    if v == "":
        return "empty-value"
    if t == "i":
        return "signed-int"
    if t == "f":
        return "float-sign-exponent-dot"
    if t == "Z":
        return "Z-punctuation"
    if t == "A":
        return "A-punctuation"
    if t == "B":
        return "B-array"
    if t == "H":
        return "H"
    return "other"


def replay(params, model, wd):
    kind = params["kind"]
    if kind == "scan":
        field = model["args"][0]
        line = "r1\t15\t0\t10\t+\t>s1\t10\t0\t10\t9\t10\t60\ttp:A:P\t%s\tcg:Z:10=" % field
        out, err = real_view_roundtrip(wd, line)
        if err or len(out) != 1:
            return {"reproduced": True, "key": "C16:scan:exception", "what": "view raised %s on %r" % (err, line)}
        got = out[0].split("\t")[12:]
        ok = field in got and got.index(field) == 1
        return {"reproduced": not ok, "key": "C16:scan:%s" % classify(field), "what": "field %r of %r re-emitted as %r" % (field, line, got),
                "files": {"gaf": line, "output": out[0]}}
    if kind == "invent":
        name = model["args"][0]
        if params["col"] == "name":
            line = "%s\t15\t0\t10\t+\t>s1\t10\t0\t10\t9\t10\t60\ttp:A:P\tcg:Z:10=" % name
            out, err = real_view_roundtrip(wd, line)
        else:
            # a stable contig name that looks like a tag: convert to unstable is impossible, use view -n path instead
            import gaftools.cli.view as V
            import pickle

            line = "r1\t15\t0\t10\t+\t%s\t10\t0\t10\t9\t10\t60\ttp:A:P\tcg:Z:10=" % name
            gaf = os.path.join(wd, "in.gaf")
            open(gaf, "w").write(line + "\n")
            pickle.dump({(name, name, 0, 10): [0], "ref_contig": [name]}, open(gaf + ".gvi", "wb"))
            o = os.path.join(wd, "o.gaf")
            err = None
            try:
                V.run(gaf, output=o, nodes=[name])
            except BaseException as e:  # noqa
                err = "%s: %s" % (type(e).__name__, e)
            import gc

            gc.collect()
            out = open(o).read().splitlines() if os.path.exists(o) else []
        if err or len(out) != 1:
            return {"reproduced": True, "key": "C16:invent:exception", "what": "view raised %s on %r" % (err, line)}
        got = out[0].split("\t")[12:]
        bad = got != ["tp:A:P", "cg:Z:10="]
        return {"reproduced": bad, "key": "C16:invented-from-%s" % params["col"], "what": "record %r re-emitted with optional fields %r" % (line, got),
                "files": {"gaf": line, "output": out[0]}}
    # emitters: rerun the concrete scenario on the unmodified modules with the environment stubs
    a = model["args"]
    opt = build_opt(params, a, lambda i, menu: menu[i])
    em = params["emitter"]
    res = real_emit(wd, em, opt)
    if res.get("error"):
        return {"reproduced": True, "key": "C16:emit:%s:exception" % em, "what": res["error"]}
    if res["fields"][0] != out_name():
        return {"reproduced": True, "key": "C16:emit:read-name", "what": "%s re-emits the read name %r as %r (the documented cut is at the first blank only)" % (
            em, NAME[0], res["fields"][0])}
    got = [x for x in res["fields"][12:] if not x.startswith("ds:Z:")]
    want = expected_fields(em, opt)
    hascg = any(x.startswith("cg:Z:") for x in want)
    g2 = list(got)
    if em == "realign" and not hascg and g2 and g2[-1].startswith("cg:Z:"):
        g2 = g2[:-1]
    bad = len(g2) != len(want) or any((not g.startswith("cg:Z:")) if w.startswith("cg:Z:") else g != w for g, w in zip(g2, want))
    if not bad:
        return {"reproduced": False, "detail": "real emitter keeps the fields", "output": got}
    if params.get("repeat"):
        cause = "repeated-tag"
    elif not hascg and any(x.startswith("cg:Z:") for x in got):
        cause = "invented-cg"
    elif len(g2) < len(want) or any(g != w for g, w in zip(g2, want) if not w.startswith("cg:Z:")):
        miss = [w for w in want if w not in g2]
        cause = "lost:" + (classify(miss[0]) if miss else "order")
    else:
        cause = "other"
    return {"reproduced": True, "key": "C16:emit:%s" % cause, "what": "%s re-emits optional fields %r as %r" % (em, opt, got),
            "files": {"fields_in": opt, "fields_out": got}}


def real_emit(wd, em, opt):
    import gaftools.cli.view as V
    import gaftools.cli.index as I
    import gaftools.cli.realign as R
    from gaftools.gaf import GAF

    qe = 70000 if em == "realign-long" else 10
    if em == "to_unstable":
        cols = "%s\t%d\t0\t%d\t-\tchr1\t15\t2\t12\t9\t10\t60" % (NAME[0], qe + 5, qe)
    else:
        cols = "%s\t%d\t0\t%d\t+\t<s2<s1\t15\t3\t13\t9\t10\t60" % (NAME[0], qe + 5, qe)
    line = cols + "".join("\t" + x for x in opt)
    gfa = os.path.join(wd, "g.gfa")
    open(gfa, "w").write("".join(GFA_LINES))
    gaf = os.path.join(wd, "in.gaf")
    open(gaf, "w").write(line + ("" if NONL[0] else "\n"))
    out = os.path.join(wd, "o.gaf")
    try:
        if em == "view-n":
            I.run(gaf, gfa)
            V.run(gaf, output=out, nodes=["s1"])
        elif em == "to_stable":
            V.run(gaf, gfa=gfa, output=out, format="stable")
        elif em == "to_unstable":
            V.run(gaf, gfa=gfa, output=out, format="unstable")
        else:
            g = GAF(gaf)
            al = next(iter(g.read_file()))
            items = []

            class Q:
                def put(self, x):
                    items.append(x)

            R.wfa_alignment([(al, "ACGTACGTAC", "ACGTACTTAC", 0)], Q())
            open(out, "w").write(items[0].seq)
    except BaseException as e:  # noqa
        return {"error": "%s raised %s: %s" % (em, type(e).__name__, e)}
    import gc

    gc.collect()
    ls = open(out).read().split("\n")
    if ls and ls[-1] == "":
        ls = ls[:-1]
    if len(ls) != 1:
        return {"error": "%s wrote %d lines" % (em, len(ls))}
    return {"fields": ls[0].split("\t")}
