"""C05 — view --region returns exactly the records of the nodes under the region."""
import os

from .. import rt, stubs
from ..engine import Harness
from . import idxfam as F

ID = "C05"
M = {}

META = {
    "level": "other",
    "functions": {"gaftools.cli.view": ["get_unstable", "search", "run"], "gaftools.cli.index": ["run"]},
    "explanation": "Bounded symbolic execution (CrossHair/z3) of the real view.get_unstable / view.search and of view.run "
    "with --region.  The index holds K aligned nodes of the contig with symbolic start/end (sorted, disjoint, symbolic gaps "
    ">= 0 between them because unaligned nodes are not indexed), optionally nodes of a second contig; each region has symbolic "
    "bounds 0 <= a <= b.  Oracle: the nodes with start <= b and a < end; the records printed by view.run(regions) are those "
    "of view.run(nodes = that set) in the same execution; CommandLineError iff the set has no records; loops carry fuel "
    "4K+8 so non-termination is a failing outcome.",
    "bounds": {"quick": "K <= 4 indexed nodes, 1-2 regions, second contig with 1 node; end to end (real index.run then view.run -r, also as the "
                        "second index run of the process on another build of the graph): 4 records over 6 segments, one region", "thorough": "K <= 6, up to 3 regions"},
    "out": ["K > 6", "malformed region strings", "regions on contigs that are not in the graph"],
    "assumptions": ["the pickled index is an association list with dict interface (keys(), [key]) so symbolic node intervals need no hashing",
                    "GAF reader stub: read_line(offset) returns the record registered at that offset"],
}
META["explanation"] += '  e2e/*: real index.run (optionally as the second index run of the execution, on another build of the graph with the same segment names) followed by the real view.run -r on its output.'
META["explanation"] += '  The second contig is called chr1-2 (a dash, and a prefix that is another contig); regions on a contig nothing is aligned to are part of the region lists.'
META["explanation"] += "  In the run/* harnesses the record of the last node visits it twice, so its offset is listed twice in that node's entry."
META["explanation"] += '  e2e/index+region/stable-gaf: the end-to-end harness on a stable GAF; one record lies on the first node alone.'


class AssocIndex:
    """dict-like index whose keys may hold symbolic ints (looked up by equality, not hash)"""

    def __init__(self, items):
        self.items_ = list(items)

    def keys(self):
        return [k for k, v in self.items_]

    def __getitem__(self, key):
        for k, v in self.items_:
            if isinstance(k, tuple) and isinstance(key, tuple):
                if k[0] == key[0]:
                    return v
            elif k == key:
                return v
        raise KeyError(key)

    def __contains__(self, key):
        try:
            self[key]
            return True
        except KeyError:
            return False

    def __iter__(self):
        return iter(self.keys())

    def get(self, key, default=None):
        try:
            return self[key]
        except KeyError:
            return default

    def items(self):
        return list(self.items_)


def setup():
    import gaftools.cli.view as V
    import gaftools.gaf as GA
    import gaftools.cli as C

    M.update(V=V, GA=GA, C=C)
    F.setup()


def harnesses(tier):
    hs = []
    ks = (1, 2, 3, 4) if tier == "quick" else (1, 2, 3, 4, 5, 6)
    for k in ks:
        hs.append({"id": "search/K%d" % k, "params": {"kind": "search", "k": k}, "timeout": 300 if k < 5 else 1500, "twin": k == 2})
    for k in ((1, 2, 3) if tier == "quick" else (1, 2, 3, 4)):
        hs.append({"id": "run/K%d/r1" % k, "params": {"kind": "run", "k": k, "regions": 1}, "timeout": 600 if k < 4 else 1800, "twin": k == 2})
    hs.append({"id": "run/K2/r2", "params": {"kind": "run", "k": 2, "regions": 2}, "timeout": 900})
    hs.append({"id": "run/K2/r2-other-contig", "params": {"kind": "run", "k": 2, "regions": 2, "other": True}, "timeout": 900})
    hs.append({"id": "run/K2/r2-contig-without-alignments", "params": {"kind": "run", "k": 2, "regions": 2, "other": "unindexed"}, "timeout": 900})
    hs.append({"id": "run/K2/r3-contig-without-alignments", "params": {"kind": "run", "k": 2, "regions": 3, "other": "unindexed"}, "timeout": 1800})
    hs.append({"id": "run/K2/r3-revisit-contig", "params": {"kind": "run", "k": 2, "regions": 3, "other": True}, "timeout": 1800})
    for prior in (0, 1):
        hs.append({"id": "e2e/index+region/%s" % ("second-graph-in-process" if prior else "first"), "params": {"kind": "e2e", "prior": prior, "k": 0}, "timeout": 900})
    hs.append({"id": "e2e/index+region/stable-gaf", "params": {"kind": "e2e", "prior": 0, "k": 0, "form": "stable"}, "timeout": 900})
    hs.append({"id": "search/digits", "params": {"kind": "digits", "k": 3}, "timeout": 600})
    if tier == "thorough":
        hs.append({"id": "run/K3/r2", "params": {"kind": "run", "k": 3, "regions": 2}, "timeout": 2400})
        hs.append({"id": "run/K2/r3", "params": {"kind": "run", "k": 2, "regions": 3}, "timeout": 2400})
    return hs


def layout_args(k):
    args = [("g0", "int")]
    pre = ["g0 >= 0"]
    for i in range(k):
        args.append(("n%d" % i, "int"))
        pre.append("n%d >= 1" % i)
        if i:
            args.append(("g%d" % i, "int"))
            pre.append("g%d >= 0" % i)
    return args, pre


def intervals(k, vals):
    """vals: g0, n0, (g1, n1)... -> list of (start, end)"""
    pos = vals[0]
    out = []
    it = iter(vals[1:])
    for i in range(k):
        if i:
            pos = pos + next(it)
            ln = next(it)
        else:
            ln = next(it)
        out.append((pos, pos + ln))
        pos = pos + ln
    return out


def arg_order(k):
    # order in which layout_args lists the values: g0, n0, n1, g1, n2, g2 ...
    names = ["g0"]
    for i in range(k):
        names.append("n%d" % i)
        if i:
            names.append("g%d" % i)
    return names


def decode_layout(k, a):
    names = arg_order(k)
    d = dict(zip(names, a[:len(names)]))
    vals = [d["g0"], d["n0"]]
    for i in range(1, k):
        vals += [d["g%d" % i], d["n%d" % i]]
    return intervals(k, vals), len(names)


def region_str(contig, a, b):
    return rt.vp_fmt_("%s:%d-%d", (contig, a, b))


DIGIT_NODES = [(2, 12), (95, 106), (990, 1005)]
DIGIT_BOUNDS = [0, 2, 5, 9, 10, 11, 95, 100, 105, 989, 1000, 1004]


def pickv(sel, options):
    for i, o in enumerate(options):
        if sel == i:
            return o
    return options[-1]


def build_digits():
    """region bounds with different numbers of digits, as literal text (not renderings of symbolic integers)"""
    def case(sa, sb):
        V = M["V"]
        a = pickv(sa, DIGIT_BOUNDS)
        b = pickv(sb, DIGIT_BOUNDS)
        if a > b:
            return "SKIP"
        items = [(("x%d" % i, "chr1", s, e), [i]) for i, (s, e) in enumerate(DIGIT_NODES)]
        idx = AssocIndex(items + [("ref_contig", ["chr1"])])
        want = ["x%d" % i for i, (s, e) in enumerate(DIGIT_NODES) if s <= b and a < e]
        got = V.get_unstable(["chr1:%d-%d" % (a, b)], idx)
        if sorted(got) != want:
            return "region chr1:%d-%d covers %r but get_unstable returned %r" % (a, b, want, list(got))
        return None

    n = len(DIGIT_BOUNDS) - 1
    return Harness([("sa", "int"), ("sb", "int")], ["0 <= sa <= %d and 0 <= sb <= %d" % (n, n)], case, fuel=40)


E2E_WALKS = [">s0>s1", ">s2", ">s1>a1", "<b0", ">s0"]
# the same segment names cut differently (another build of the graph)
E2E_LAY2 = {"s0": ("chr1", 0, 4, 0), "s1": ("chr1", 4, 8, 0), "s2": ("chr1", 12, 18, 0), "a0": ("hap-A.1", 100, 4, 1), "a1": ("hap-A.1", 110, 10, 1), "b0": ("hap_B#2", 7, 2, 2)}


def e2e_want(a, b):
    nodes = [n for n, (sn, so, ln, sr) in F.LAY.items() if sn == "chr1" and so <= b and a < so + ln]
    return nodes, [i for i, w in enumerate(E2E_WALKS) if any(n in nodes for _, n in F.parse_walk(w))]


def build_e2e(params):
    """the real index.run (optionally after an index.run on another build of the graph in the same process) followed by the real
    view.run --region on its output"""
    n = len(E2E_WALKS)

    def case(a, b, c0, c1, c2, c3, c4, c5):
        V, C = M["V"], M["C"]
        e = stubs.env()
        cookies = [c0, c1, c2, c3, c4, c5]
        saved = dict(F.LAY)
        try:
            if params["prior"]:
                recs0 = F.records_for("unstable", E2E_WALKS, [(0, 1)] * n)
                F.run_index(recs0, cookies)
                F.LAY.clear()
                F.LAY.update(E2E_LAY2)
            recs = F.records_for(params.get("form", "unstable"), E2E_WALKS, [(0, 1)] * n)
            F.run_index(recs, cookies)
            nodes, want = e2e_want(a, b)
            rt.set_fuel(60)
            try:
                V.run("in.gaf", output="o.gaf", index="in.gaf.gvi", regions=[region_str("chr1", a, b)], nodes=[])
                raised = False
            except C.CommandLineError:
                raised = True
            if not want:
                return None if raised else "no aligned node under the region but no 'nothing found' error"
            if raised:
                return "CommandLineError although nodes %r under the region have records" % (nodes,)
            out = [l.split("\t")[0] for l in e.files["o.gaf"].lines]
            wantn = [F.rname(i).split(" ")[0] for i in want]
            if out != wantn:
                return "region selects nodes %r: expected records %r, got %r" % (nodes, wantn, out)
            return None
        finally:
            F.LAY.clear()
            F.LAY.update(saved)

    return Harness([("a", "int"), ("b", "int")] + [("c%d" % i, "int") for i in range(6)], ["0 <= a <= b <= 40 and 0 <= c0 < c1 < c2 < c3 < c4 < c5"], case, fuel=60)


def replay_e2e(params, model, wd):
    import gaftools.cli.view as V
    import gaftools.cli.index as I
    from gaftools.cli import CommandLineError

    a, b = model["args"][:2]
    n = len(E2E_WALKS)
    saved = dict(F.LAY)
    try:
        lays = [saved, E2E_LAY2] if params["prior"] else [saved]
        for k, lay in enumerate(lays):
            F.LAY.clear()
            F.LAY.update(lay)
            d = os.path.join(wd, "run%d" % k)
            os.makedirs(d)
            recs = F.records_for(params.get("form", "unstable"), E2E_WALKS, [(0, 1)] * n)
            gfa, gaf, lines = F.write_real(d, recs)
            I.run(gaf, gfa)
        nodes, want = e2e_want(a, b)
        out = os.path.join(wd, "o.gaf")
        res = "ok"
        try:
            V.run(gaf, output=out, regions=["chr1:%d-%d" % (a, b)], nodes=[])
        except CommandLineError:
            res = "nothing-found"
        except BaseException as e:  # noqa
            res = "error:%s: %s" % (type(e).__name__, e)
        import gc

        gc.collect()
        got = [l.split("\t")[0] for l in open(out).read().splitlines()] if os.path.exists(out) else []
        wantn = [F.rname(i).split(" ")[0] for i in want]
        files = {"gaf": lines, "gfa": F.gfa_lines(), "region": "chr1:%d-%d" % (a, b), "output": got, "result": res,
                 "history": "gaftools index on another build of the graph earlier in the same process" if params["prior"] else "single run"}
        if res.startswith("error"):
            return {"reproduced": True, "key": "C05:e2e:internal-error", "what": res, "files": files}
        if (res == "nothing-found") != (not want) or (want and got != wantn):
            return {"reproduced": True, "key": "C05:e2e:%s" % ("after-prior-index" if params["prior"] else "single"),
                    "what": "index + view -r chr1:%d-%d returned %r (%s); nodes under the region %r have records %r" % (a, b, got, res, nodes, wantn), "files": files}
        return {"reproduced": False, "detail": "index + view -r match", "files": files}
    finally:
        F.LAY.clear()
        F.LAY.update(saved)


def build(params):
    if params["kind"] == "e2e":
        return build_e2e(params)
    if params["kind"] == "digits":
        return build_digits()
    k = params["k"]
    largs, lpre = layout_args(k)
    if params["kind"] == "search":
        args = largs + [("a", "int"), ("b", "int")]
        pre = lpre + ["0 <= a <= b"]

        def case(*a_):
            V = M["V"]
            ivs, used = decode_layout(k, a_)
            a, b = a_[used], a_[used + 1]
            items = [(("x%d" % i, "chr1", s, e), [i]) for i, (s, e) in enumerate(ivs)]
            items.append((("y0", "chr1-2", 3, 9), [99]))
            idx = AssocIndex(items + [("ref_contig", ["chr1"])])
            want = ["x%d" % i for i, (s, e) in enumerate(ivs) if s <= b and a < e]
            rt.set_fuel(4 * k + 8)
            if not want:
                try:
                    got = V.get_unstable([region_str("chr1", a, b)], idx)
                except IndexError:
                    return "IndexError for a region that covers no indexed node"
                return None if list(got) == [] else "nodes returned for a region that covers no indexed node"
            got = V.get_unstable([region_str("chr1", a, b)], idx)
            if sorted(got) != want:
                return "region covers %r but get_unstable returned %r" % (want, list(got))
            return None

        return Harness(args, pre, case, fuel=4 * k + 8)
    nreg = params["regions"]
    args = list(largs)
    pre = list(lpre)
    for r in range(nreg):
        args += [("a%d" % r, "int"), ("b%d" % r, "int")]
        pre.append("0 <= a%d <= b%d" % (r, r))

    def case(*a_):
        V, GA, C = M["V"], M["GA"], M["C"]
        e = stubs.env()
        ivs, used = decode_layout(k, a_)
        regs = [(a_[used + 2 * r], a_[used + 2 * r + 1]) for r in range(nreg)]
        # records: record i traverses node xi; record k traverses x0 and the last node; record k+1 only y0
        nrec = k + 2
        recs = []
        for i in range(nrec):
            recs.append((i * 10, (lambda i=i: GA.Alignment("r%d" % i, 10, 0, 10, "+", ">n", 10, 0, 10, 10, 10, 60, True, "10=", tags={"cg:Z:": "10="}))))
        e.gaf_records["in.gaf"] = recs
        items = []
        for i, (s, en) in enumerate(ivs):
            offs = [i * 10]
            if i == 0 or i == k - 1:
                offs.append(k * 10)
            if i == k - 1:
                # record i visits its node twice (tandem duplication): gaftools index lists its offset once per visit
                offs.insert(0, i * 10)
            items.append((("x%d" % i, "chr1", s, en), offs))
        items.append((("y0", "chr1-2", 3, 9), [(k + 1) * 10]))
        idx = AssocIndex(items + [("ref_contig", ["chr1"])])
        e.pickles["in.gaf.gvi"] = idx
        e.files["in.gaf.gvi"] = stubs.MFile("text", [], None)
        regions = []
        want_nodes = []
        for r, (a, b) in enumerate(regs):
            if params.get("other") == "unindexed" and r == 1:
                # a contig of the graph none of whose nodes has alignments: nothing of it is in the index
                regions.append(region_str("chrU", a, b))
            elif params.get("other") and r == 1:
                regions.append(region_str("chr1-2", a, b))
                if 3 <= b and a < 9:
                    want_nodes.append("y0")
            else:
                regions.append(region_str("chr1", a, b))
                for i, (s, en) in enumerate(ivs):
                    if s <= b and a < en and ("x%d" % i) not in want_nodes:
                        want_nodes.append("x%d" % i)
        want_offs = []
        for n in want_nodes:
            for o in idx[(n,)]:
                if o not in want_offs:
                    want_offs.append(o)
        want_offs.sort()
        rt.set_fuel((4 * k + 8) * nreg + 8)
        try:
            V.run("in.gaf", output="o.gaf", index="in.gaf.gvi", regions=regions, nodes=[])
            raised = False
        except C.CommandLineError:
            raised = True
        if not want_offs:
            return None if raised else "no node under the region(s) but no 'nothing found' error"
        if raised:
            return "CommandLineError although records exist under the region(s)"
        out = [l.split("\t")[0] for l in e.files["o.gaf"].lines]
        want = ["r%d" % (o // 10) for o in want_offs]
        if out != want:
            return "regions select nodes %r: expected records %r, got %r" % (want_nodes, want, out)
        return None

    return Harness(args, pre, case, fuel=(4 * k + 8) * nreg + 8)


# ------------------------------------------------------------------------------------------


def replay(params, model, wd):
    """real rGFA + GAF, real `gaftools index`, real `view -r` vs real `view -n` of the oracle node set"""
    import signal
    import gaftools.cli.view as V
    import gaftools.cli.index as I
    from gaftools.cli import CommandLineError

    if params["kind"] == "e2e":
        return replay_e2e(params, model, wd)
    k = params["k"]
    a_ = model["args"]
    if params["kind"] == "digits":
        a, b = DIGIT_BOUNDS[a_[0]], DIGIT_BOUNDS[a_[1]]
        ivs = list(DIGIT_NODES)
        regs = [("chr1", a, b)]
    else:
        ivs, used = decode_layout(k, a_)
    if params["kind"] == "digits":
        pass
    elif params["kind"] == "search":
        regs = [("chr1", a_[used], a_[used + 1])]
    else:
        regs = []
        for r in range(params["regions"]):
            c = ("chrU" if params.get("other") == "unindexed" else "chr1-2") if (params.get("other") and r == 1) else "chr1"
            regs.append((c, a_[used + 2 * r], a_[used + 2 * r + 1]))
    # chr1 is tiled: gaps become unaligned filler nodes u<i>
    segs = []
    pos = 0
    for i, (s, e) in enumerate(ivs):
        if s > pos:
            segs.append(("u%d" % i, "chr1", pos, s - pos, 0))
        segs.append(("x%d" % i, "chr1", s, e - s, 0))
        pos = e
    segs.append(("utail", "chr1", pos, 5, 0))
    segs.append(("y0", "chr1-2", 3, 6, 1))
    segs.append(("v0", "chrU", 0, 50, 0))  # a second reference contig that nothing is aligned to
    gfa = os.path.join(wd, "g.gfa")
    with open(gfa, "w") as fh:
        for nid, sn, so, ln, sr in segs:
            fh.write("S\t%s\t%s\tLN:i:%d\tSN:Z:%s\tSO:i:%d\tSR:i:%d\n" % (nid, "A" * ln, ln, sn, so, sr))
        chain = [s for s in segs if s[1] == "chr1"]
        for x, y in zip(chain, chain[1:]):
            fh.write("L\t%s\t+\t%s\t+\t0M\n" % (x[0], y[0]))
        fh.write("L\tx%d\t+\tx%d\t+\t0M\n" % (k - 1, k - 1))
    ln = {s[0]: s[3] for s in segs}
    lines = []
    for i in range(k):
        if i == k - 1:
            lines.append("r%d\t10\t0\t10\t+\t>x%d>x%d\t%d\t0\t%d\t10\t10\t60\tcg:Z:10=" % (i, i, i, 2 * ln["x%d" % i], ln["x%d" % i]))
            continue
        lines.append("r%d\t10\t0\t10\t+\t>x%d\t%d\t0\t%d\t10\t10\t60\tcg:Z:10=" % (i, i, ln["x%d" % i], ln["x%d" % i]))
    lines.append("r%d\t10\t0\t10\t+\t>x0<x%d\t%d\t0\t1\t10\t10\t60\tcg:Z:10=" % (k, k - 1, ln["x0"] + ln["x%d" % (k - 1)]))
    lines.append("r%d\t10\t0\t10\t+\t>y0\t6\t0\t6\t10\t10\t60\tcg:Z:10=" % (k + 1))
    gaf = os.path.join(wd, "in.gaf")
    open(gaf, "w").write("".join(l + "\n" for l in lines))
    I.run(gaf, gfa)
    regions = ["%s:%d-%d" % r for r in regs]
    want_nodes = []
    for c, a, b in regs:
        for nid, sn, so, l_, sr in segs:
            if sn == c and nid[0] in "xy" and so <= b and a < so + l_ and nid not in want_nodes:
                want_nodes.append(nid)
    want = [l for l in lines if any((">" + n) in l.split("\t")[5] or ("<" + n) in l.split("\t")[5] for n in want_nodes)]

    class Timeout(Exception):
        pass

    def onalarm(*_):
        raise Timeout()

    out = os.path.join(wd, "o.gaf")
    signal.signal(signal.SIGALRM, onalarm)
    signal.alarm(20)
    res = None
    try:
        V.run(gaf, output=out, regions=regions, nodes=[])
        res = "ok"
    except CommandLineError:
        res = "nothing-found"
    except Timeout:
        res = "hang"
    except BaseException as e:  # noqa
        res = "error:%s: %s" % (type(e).__name__, e)
    finally:
        signal.alarm(0)
    import gc

    gc.collect()
    got = open(out).read().splitlines() if os.path.exists(out) else []
    files = {"segments": segs, "gaf": lines, "regions": regions, "nodes_under_regions": want_nodes, "output": got, "result": res}
    if res == "hang":
        return {"reproduced": True, "key": "C05:hang", "what": "view -r %s does not terminate (20 s)" % regions, "files": files}
    if res.startswith("error"):
        return {"reproduced": True, "key": "C05:internal-error:" + res.split(":")[1], "what": "view -r %s: %s" % (regions, res), "files": files}
    if not want:
        ok = res == "nothing-found"
        return {"reproduced": not ok, "key": "C05:empty-not-reported", "what": "no aligned node under %s but view returned %r" % (regions, got), "files": files}
    if res == "nothing-found":
        return {"reproduced": True, "key": "C05:missing-records", "what": "view -r %s reports nothing, nodes %r have records" % (regions, want_nodes), "files": files}
    gotn = [l.split("\t")[0] for l in got]
    wantn = [l.split("\t")[0] for l in want]
    if gotn != wantn:
        key = "C05:missing-records" if set(gotn) < set(wantn) else "C05:extra-records" if set(gotn) > set(wantn) else "C05:wrong-records"
        return {"reproduced": True, "key": key, "what": "view -r %s returned %r, nodes under the region %r have records %r" % (regions, gotn, want_nodes, wantn), "files": files}
    return {"reproduced": False, "detail": "view -r matches view -n of the nodes under the region", "files": files}
