"""C13 — realign aborts with an error when a worker dies."""
from . import c11
from . import realignfam as F

ID = "C13"
setup = F.setup

META = dict(c11.META)
META.update({
    "level": "model_checking",
    "explanation": "Same symbolic schedule exploration as C11 (real realign_gaf against the lazy observational model of "
    "multiprocessing) with the FAULT selector enabled: at start() of every worker a fresh symbolic choice picks 'healthy' or a "
    "death point d in [0, number of deliveries]: the worker delivers exactly its first d items (items already in the pipe are "
    "still delivered, the rest never) and is then dead with a non-zero exit code - including d = everything (died after the "
    "sentinel).  Assertion: whenever some worker has a death point the run ends with SystemExit of non-zero code - never a "
    "normal return, never loop-fuel exhaustion inside the idle budget; without a fault it behaves as in C11.",
    "bounds": {"quick": "(W,B,records,T) in {(1,1,1,1), (1,2,2,1), (1,1,2,1)} x every death point of every worker, plus the two-worker round (2,1,2,0)",
               "thorough": "adds (2,1,2,1), (1,2,3,1), (2,1,2,2), (2,2,4,1), (3,1,3,1)"},
    "out": c11.META["out"] + ["a worker killed while its feeder thread holds the queue's write lock: the surviving workers then block "
                             "forever and the parent keeps waiting (a real hang that a model with atomic deliveries cannot see)"],
})
META["explanation"] += ("  The model queue has the signature of multiprocessing.Queue.get(block=True, timeout=None): a positional number is `block`, "
                        "and a blocking get with nothing left to arrive is a hang.  Records alternate between realigned and passed-through kinds as in C11.")
META["explanation"] += '  Each configuration is driven through one of three entry points (realign_gaf, run_realign to standard output, run_realign to a file).'

CONFIGS = {
    "quick": [(1, 1, 1, 1), (1, 2, 2, 1), (1, 1, 2, 1), (2, 1, 1, 1), (2, 1, 2, 0)],
    "thorough": [(1, 1, 1, 1), (1, 2, 2, 1), (1, 1, 2, 1), (2, 1, 2, 1), (1, 2, 3, 1), (2, 1, 2, 2), (2, 2, 4, 1), (3, 1, 3, 1)],
}


def harnesses(tier):
    hs = []
    for (w, b, n, t) in CONFIGS[tier]:
        hs.append({"id": "fault/W%d-B%d-N%d-T%d" % (w, b, n, t), "params": {"W": w, "B": b, "N": n, "T": t},
                   "timeout": 3000 if w * n >= 4 else 900, "path_timeout": 120, "twin": (w, b, n, t) == (1, 1, 1, 1)})
    return hs


def build(params):
    return c11.build(params, faults=True)


def replay(params, model, wd):
    return c11.replay(params, model, wd, faults=True, prop="C13")
