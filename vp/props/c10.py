"""C10 — sort writes a usable per-chromosome index next to the sorted GAF."""
from . import sortfam as F

ID = "C10"
setup = F.setup

META = {
    "level": "other",
    "functions": {"gaftools.cli.sort": ["sort", "run_sort", "process_alignment", "compare_gaf", "write_to_file"]},
    "explanation": "Bounded symbolic execution (CrossHair/z3) of the real sort.sort / run_sort with an output path: "
    "writer.tell() returns symbolic strictly increasing cookies.  Assertion: the run completes (no exception) whether "
    "or not some record touches no reference node; the pickled dict has exactly one entry per reference contig that "
    "tags an output record, holding [cookie of its first record, cookie of its last record]; no entry for 'unknown'; "
    "default index path is outgaf + '.gsi'.  Because records of a contig are contiguous only if BO ranges are "
    "disjoint per chromosome, 'every record of that contig lies between them' is checked as first/last positions.",
    "bounds": {"quick": "n<=3 records, 1-2 chromosomes, with and without a record that touches no reference node",
               "thorough": "adds BGZF writer and 3-record two-chromosome mixes"},
    "out": ["real BGZF virtual offsets (C library)", "n > 3"],
    "assumptions": ["writer.tell() contract: opaque increasing cookie of the next write (DESIGN 3.2)",
                    "pickle.dump stores the object under the handle's path"],
}
META["explanation"] += '  idx-any-tags/*: reference segments with arbitrary BO/NO (inside bubbles, untagged); the index is judged against the sn tags the output carries.'
META["explanation"] += '  runsort/graph-from-text: the tagged graph is read by the real read_graph from text whose segment carries a Z annotation with blanks.'


def harnesses(tier):
    hs = []
    menus = [
        [">s1"], [">x1"], [">s1", ">x1"], [">s1", ">s2"], [">s1", ">t1"], [">t1", ">x1"], [">s1>x1", "<s2"],
        [">s1", ">t1", ">x1"], [">t1", ">s1", ">t1"],
    ]
    if tier == "thorough":
        menus += [[">s1", ">s1", ">s1"], [">x1", ">x1"], [">t1", ">s1>x1", "<s2"], [">s1", ">t1", ">s2"]]
    for m in menus:
        hs.append({"id": "idx/" + "+".join(m), "params": {"kind": "sort", "paths": m},
                   "timeout": 300 if len(m) < 3 else 600, "twin": m == [">s1", ">x1"]})
    # reference segments inside bubbles (SR 0 but NO != 0) and untagged reference segments: the contig of a record is that of its
    # first rank-0 node whatever its BO/NO
    for m in ([">s1"], [">s1", ">t1"], [">s1>x1", "<s2"], [">t1", ">s1", ">t1"]):
        hs.append({"id": "idx-any-tags/" + "+".join(m), "params": {"kind": "sort", "paths": m, "scaffold_ref": False}, "timeout": 600})
    hs.append({"id": "idxgz/>s1+>x1", "params": {"kind": "sort", "paths": [">s1", ">x1"], "gz_out": True}, "timeout": 300})
    hs.append({"id": "runsort/default-path", "params": {"kind": "runsort"}, "timeout": 120})
    hs.append({"id": "runsort/graph-from-text", "params": {"kind": "runsort", "graph_text": True}, "timeout": 300})
    return hs


def build(params):
    if params["kind"] == "runsort":
        from ..engine import Harness
        from .. import stubs, rt

        def case(b1, c0, c1, w0, w1):
            S = F.M["S"]
            G = F.M["G"]
            e = stubs.env()
            if params.get("graph_text"):
                # the tagged graph is read by the real read_graph from text; one segment carries an annotation with blanks
                e.files["g.gfa"] = stubs.MFile("text", [
                    "H\tVN:Z:1.0\n",
                    # (the tag checker of read_graph matches a regular expression on each tag: BO is a concrete value from a menu here)
                    "S\ts1\t*\tLN:i:500\tSN:Z:chr1\tSO:i:0\tSR:i:0\tDS:Z:primary assembly, patch 2\tBO:i:%d\tNO:i:0\n" % (0 if b1 == 0 else (5 if b1 == 1 else 300)),
                    "S\tx9\t*\tLN:i:5\tSN:Z:hapX\tSO:i:0\tSR:i:1\tBO:i:7\tNO:i:1\n", "L\ts1\t+\tx9\t+\t0M\n"], None)
            else:
                g = G.GFA()
                g.nodes["s1"] = F.mk_node("s1", b1, 0)
                e.graphs["g.gfa"] = lambda low: g
            e.files["in.gaf"] = stubs.MFile("text", F.build_lines([">s1"], [(500, 1, 2)]), [c0, c1])
            res = {}
            for k, (outind, bgz) in enumerate(((None, False), ("custom.idx", False), (None, True), ("custom.idx", True))):
                e.pickles.clear()
                # every call sees other offsets: nothing may survive from an earlier run_sort call in the same process
                e.writer_cookies["o.gaf"] = [w0 + 10 * k, w1 + 10 * k]
                S.run_sort("g.gfa", "in.gaf", outgaf="o.gaf", outind=outind, bgzip=bgz)
                want = outind or "o.gaf.gsi"
                if list(e.pickles.keys()) != [want]:
                    return "bgzip=%s outind=%r: index written to %r, expected %r" % (bgz, outind, list(e.pickles.keys()), want)
                if (e.files["o.gaf"].kind == "bgzf") != bgz:
                    return "bgzip=%s but the output was %s" % (bgz, e.files["o.gaf"].kind)
                d = e.pickles[want]
                if set(d.keys()) != {"chr1"} or not (d["chr1"][0] == w0 + 10 * k and d["chr1"][1] == w0 + 10 * k):
                    return "call %d of run_sort in this process: index %r does not describe this run's output" % (k + 1, d)
            e.pickles.clear()
            S.run_sort("g.gfa", "in.gaf", outgaf=None, outind=None, bgzip=False)
            if e.pickles:
                return "index written although no output path"
            return None

        return Harness([("b1", "int"), ("c0", "int"), ("c1", "int"), ("w0", "int"), ("w1", "int")],
                       ["b1 >= 0 and 0 <= c0 < c1 and 0 <= w0 < w1"], case)
    return F.build_sort(params, "C10")


def concrete_index_violation(outl, offs, idx):
    if idx is None:
        return "missing", "no index file written"
    first, last = {}, {}
    for pos, l in enumerate(outl):
        sn = [x[5:] for x in l.split("\t")[12:] if x.startswith("sn:Z:")]
        if not sn:
            return "nosn", "output record without sn"
        first.setdefault(sn[0], pos)
        last[sn[0]] = pos
    want = {sn: [offs[first[sn]], offs[last[sn]]] for sn in first if sn != "unknown"}
    if dict(idx) != want:
        return "content", "index %r, expected %r" % (dict(idx), want)
    return None


def replay(params, model, wd):
    if params["kind"] == "runsort":
        b1 = model["args"][0]
        tags = {"s1": (b1, 0)}
        lines, outl, offs, idx, err = F.real_sort(wd, [">s1"], tags, [(500, 1, 2)])
        if err:
            return {"reproduced": True, "key": "C10:exception:" + err.split(":")[0] + (":all-reference" if "unknown" in err else ""),
                    "what": "run_sort raised " + err}
        v = concrete_index_violation(outl, offs, idx)
        if v:
            return {"reproduced": True, "key": "C10:index:" + v[0], "what": v[1]}
        import os
        # several run_sort calls in one process: each index must describe its own output
        lines1, out1, offs1, idx1, err1 = F.real_sort(wd, [">t1", ">t1"], {"t1": (b1, 0)}, [(500, 1, 2), (500, 3, 4)])
        lines2, out2, offs2, idx2, err2 = F.real_sort(wd, [">s1"], tags, [(500, 1, 2)])
        v2 = concrete_index_violation(out2, offs2, idx2) if not err2 else ("exception", err2)
        if v2:
            return {"reproduced": True, "key": "C10:index:second-call-in-process", "what": "second run_sort call in one process: %s" % (v2[1],)}
        for bgz in (False, True):
            lines, outl, offs, idx, err = F.real_sort(wd, [">s1"], tags, [(500, 1, 2)], outind=os.path.join(wd, "custom%d.idx" % bgz), gz_out=bgz)
            if err or idx is None:
                return {"reproduced": True, "key": "C10:outind:%s" % ("bgzip" if bgz else "plain"),
                        "what": "--outind with bgzip=%s: %s" % (bgz, err or "no index at the requested path")}
        return {"reproduced": False, "detail": "run_sort index paths fine"}
    used, tags, nums = F.decode_sort(params, model)
    paths = params["paths"]
    lines, outl, offs, idx, err = F.real_sort(wd, paths, tags, nums, params.get("gz_in"), params.get("gz_out"))
    if err:
        allref = all(any(F.NODES[n][1] == 0 for _, n in F.tokens(p)) for p in paths)
        return {"reproduced": True, "key": "C10:exception:" + err.split(":")[0] + (":all-reference" if allref else ""),
                "what": "run_sort raised %s (every record touches a reference node: %s)" % (err, allref),
                "files": {"gaf": lines, "graph_tags": tags}}
    v = concrete_index_violation(outl, offs, idx)
    if v:
        return {"reproduced": True, "key": "C10:index:" + v[0], "what": v[1], "files": {"gaf": lines, "output": outl}}
    # an offset that is computed instead of taken from tell() only shows on real files once the output spans several BGZF
    # blocks (virtual offsets) - replay the same records, each repeated 1500 times, through --bgzip
    big = big_bgzf(wd, paths, tags, nums)
    if big:
        return {"reproduced": True, "key": "C10:index:multi-block-bgzf", "what": big}
    return {"reproduced": False, "detail": "real index matches (also on a multi-block BGZF output)", "index": idx}


def big_bgzf(wd, paths, tags, nums, rep=1500):
    import os
    import pickle
    import gaftools.cli.sort as S
    from pysam import libcbgzf

    g = F.write_graph(wd, tags)
    gaf = os.path.join(wd, "big.gaf")
    with open(gaf, "w") as fh:
        for j in range(rep):
            for i, p in enumerate(paths):
                plen, ps, pe = nums[i]
                fh.write("r%dx%d\t100\t0\t100\t+\t%s\t%d\t%d\t%d\t90\t100\t60\ttp:A:P\tzz:Z:%s\n" % (i, j, p, plen, ps, pe, "pad" * 12))
    out = os.path.join(wd, "big.out.gaf.gz")
    try:
        S.run_sort(g, gaf, outgaf=out, bgzip=True)
    except BaseException as e:  # noqa
        return "run_sort --bgzip on %d records raised %s: %s" % (rep * len(paths), type(e).__name__, e)
    idx = pickle.load(open(out + ".gsi", "rb"))
    fh = libcbgzf.BGZFile(out, "rb")
    first, last = {}, {}
    while True:
        o = fh.tell()
        l = fh.readline()
        if not l:
            break
        sn = [x[5:] for x in l.decode().rstrip().split("\t")[12:] if x.startswith("sn:Z:")][0]
        first.setdefault(sn, o)
        last[sn] = o
    fh.close()
    want = {sn: [first[sn], last[sn]] for sn in first if sn != "unknown"}
    if dict(idx) != want:
        return "multi-block BGZF output: index %r, offsets of the first/last record per contig are %r" % (dict(idx), want)
    return None
