"""C03 — the view index lists exactly the records that traverse each node."""
import json
import os

from .. import rt, stubs
from ..engine import Harness, Direct
from . import tokfam
from . import idxfam as F
from . import convfam as CF

ID = "C03"

META = {
    "level": "other",
    "functions": {"gaftools.cli.index": ["run", "convert_coord"], "gaftools.utils": ["search_intervals", "is_file_gzipped"],
                  "gaftools.gfa": ["GFA.get_path", "GFA.list_is_path", "GFA.read_graph"]},
    "explanation": "Two layers of bounded symbolic execution (CrossHair/z3). (1) index.convert_coord on a fully symbolic layout "
    "(segment lengths, haplotype offset and gap unbounded) and a symbolic stable record - bare contig with symbolic [start,end) "
    "or 1-3 oriented intervals with symbolic bounds: the returned ids, as a set, are exactly the segments n with n.start < end "
    "and start < n.end.  (2) the real index.run end to end on the model file system with a concrete rGFA (haplotype contig "
    "with separated segments, inversion, links) and n<=3 records whose start/end and file offsets (cookies) are symbolic, in "
    "unstable / stable / stable-unmerged / bare-contig form, text and BGZF: the pickled dict has key (id, SN, SO, SO+LN) for "
    "node n iff some record traverses n, its value lists exactly the offsets of those records (repeats allowed), no other "
    "key, ref_contig = rank-0 contigs; seeking to a listed offset yields that record by the cookie contract.",
    "bounds": {"quick": "layer 1: bare contig + 1-2 intervals; layer 2: n<=3 records from a walk menu, 4 forms x {text,BGZF}",
               "thorough": "layer 1: 3 intervals; layer 2: more walk menus"},
    "out": ["real BGZF block structure / virtual offsets (C library)", "n > 3 records", "line lengths",
            "stable intervals starting beyond the end of the contig"],
    "assumptions": ["tell() returns an opaque increasing cookie for the next unread line, readline() advances (DESIGN 3.2)",
                    "format detection reads the records through the GAF reader stub"],
}
META["explanation"] += '  Segment names are mixed (s0, s1-alt, s1.2, b#0|x: word prefixes of one another, characters outside [A-Za-z0-9_]) and every second read name carries a comment after a blank.  tokens/cli/index.py: the path tokenizers of index.py decided as languages by z3.'
META["explanation"] += '  The comment of every second read name holds multi-byte characters; no-final-newline variants.'
META["explanation"] += '  run/unstable/*/colon-contig: a segment on a contig called HG002:hap1:ctg7.'

setup_done = []


def setup():
    F.setup()
    CF.setup()


WALK_MENUS = [
    [">s0>s1"], [">s0>a0>s1", "<s1<a0<s0"], [">s1>a1>s2", ">s1<b0>s2"], [">a0", ">a1", ">a0>s1>a1"], [">s0>s1>s0", ">b0"],
    ["<s2<s1<s0", ">s0", ">s0"],
]


def harnesses(tier):
    hs = []
    # layer 1
    shapes = [{"bare": "chr1"}, {"bare": "chr2"}, {"iv": [["chr1"]]}, {"iv": [["hap-A.1"]]}, {"iv": [["chr1"], ["hap-A.1"]]}, {"iv": [["hap_B#2"], ["chr1"]]}]
    if tier == "thorough":
        shapes += [{"iv": [["chr1"], ["hap-A.1"], ["chr1"]]}, {"iv": [["hap-A.1"], ["hap-A.1"]]}]
    for sh in shapes:
        hs.append({"id": "coord/" + json.dumps(sh, separators=(",", ":")), "params": dict(sh, kind="coord"), "timeout": 600,
                   "twin": sh.get("bare") == "chr1"})
    # layer 2
    menus = WALK_MENUS if tier == "thorough" else WALK_MENUS[:5]
    for mi, m in enumerate(menus):
        for form in ("unstable", "stable", "stable-unmerged"):
            for gz in (0, 1):
                if tier == "quick" and gz and form == "stable-unmerged":
                    continue
                hs.append({"id": "run/%s/%s/m%d" % (form, "bgzf" if gz else "text", mi),
                           "params": {"kind": "run", "form": form, "gz": gz, "walks": m}, "timeout": 600,
                           "twin": (mi, form, gz) == (1, "stable", 0)})
    for gz in (0, 1):
        hs.append({"id": "run/unstable/%s/colon-contig" % ("bgzf" if gz else "text"), "params": {"kind": "run", "form": "unstable", "gz": gz, "walks": [">s1>c9>s2", "<c9"]},
                   "timeout": 600})
    for mi in (1, 2, 3):
        hs.append({"id": "run-revorder/stable/text/m%d" % mi, "params": {"kind": "run", "form": "stable", "gz": 0, "walks": WALK_MENUS[mi], "revorder": True},
                   "timeout": 600})
    for gz in (0, 1):
        hs.append({"id": "run/bare/%s" % ("bgzf" if gz else "text"), "params": {"kind": "run", "form": "bare", "gz": gz, "walks": ["chr1", "chr1"]},
                   "timeout": 900})
    for form in ("unstable", "stable"):
        hs.append({"id": "run/%s/text/m1/no-final-newline" % form, "params": {"kind": "run", "form": form, "gz": 0, "walks": WALK_MENUS[1], "nonl": True}, "timeout": 600})
    hs.append({"id": "run/twice-different-graphs", "params": {"kind": "twice"}, "timeout": 900})
    hs.append({"id": "run/empty", "params": {"kind": "run", "form": "unstable", "gz": 0, "walks": []}, "timeout": 120})
    hs.append(tokfam.harness("C03", "gaftools/cli/index.py"))
    return hs


def build(params):
    if params.get("kind") == "tokens":
        return Direct(lambda: tokfam.run(params))
    if params["kind"] == "coord":
        args = [(a, "int") for a in CF.LAYOUT_ARGS]
        pre = list(CF.LAYOUT_PRE)
        ivs = params.get("iv")
        if ivs:
            for i in range(len(ivs)):
                args += [("x%d" % i, "int"), ("y%d" % i, "int")]
                pre.append("0 <= x%d < y%d" % (i, i))
        else:
            args += [("ps", "int"), ("pe", "int")]
            pre.append("0 <= ps < pe")

        def case(*a):
            I = F.M["I"]
            L = a[:11]
            segs = CF.layout(L)
            CF.set_walk_links([])
            ref = {}
            for nid in CF.ORDER:
                sn, so, ln, sr = segs[nid]
                ref.setdefault(sn, []).append(CF.mknode(nid, sn, so, ln, sr))
            span = {}
            for nid in CF.ORDER:
                sn, so, ln, sr = segs[nid]
                lo, hi = span.get(sn, (so, so + ln))
                span[sn] = (lo if lo < so else so, hi if hi > so + ln else so + ln)
            want = []
            if ivs:
                path = ""
                for i, (c,) in enumerate(ivs):
                    x, y = a[11 + 2 * i], a[12 + 2 * i]
                    if not (x < span[c][1]):
                        return "SKIP"  # an interval must start on the contig
                    piece = rt.vp_fmt_("%s%s:%d-%d", (">" if i % 2 == 0 else "<", c, x, y))
                    path = piece if i == 0 else path + piece
                    for nid in CF.ORDER:
                        sn, so, ln, sr = segs[nid]
                        if sn == c and so < y and x < so + ln and nid not in want:
                            want.append(nid)
                fields = ["r", "10", "0", "10", "+", path, "100", "0", "10"]
            else:
                c = params["bare"]
                ps, pe = a[11], a[12]
                if not (ps < span[c][1]):
                    return "SKIP"
                for nid in CF.ORDER:
                    sn, so, ln, sr = segs[nid]
                    if sn == c and so < pe and ps < so + ln:
                        want.append(nid)
                fields = ["r", "10", "0", "10", "+", c, "100", rt.sym_str(ps), rt.sym_str(pe)]
            got = I.convert_coord(fields, ref)
            if sorted(set(got)) != sorted(want):
                return "convert_coord returned %r, segments overlapping the record are %r" % (list(got), want)
            return None

        return Harness(args, pre, case, fuel=50)
    if params["kind"] == "twice":
        # two gaftools index runs in ONE process on different graphs that share a contig name: nothing may carry over
        LAY2 = {"s0": ("chr1", 0, 15, 0), "s1": ("chr1", 15, 10, 0), "s2": ("chr1", 25, 5, 0), "a0": ("hap-A.1", 100, 4, 1), "a1": ("hap-A.1", 110, 10, 1),
                "b0": ("hap_B#2", 7, 2, 2)}

        def case2(ps, pe, c0, c1, d0, d1):
            saved = dict(F.LAY)
            try:
                recs = F.records_for("bare", ["chr1"], [(ps, pe)])
                idx, lines = F.run_index(recs, [c0, c1])
                r = F.check_index(idx, recs, [c0, c1])
                if r:
                    return "first run: " + r
                F.LAY.clear()
                F.LAY.update(LAY2)
                idx2, lines2 = F.run_index(recs, [d0, d1])
                r = F.check_index(idx2, recs, [d0, d1])
                if r:
                    return "second run in the same process, other graph: " + r
                return None
            finally:
                F.LAY.clear()
                F.LAY.update(saved)

        return Harness([("ps", "int"), ("pe", "int"), ("c0", "int"), ("c1", "int"), ("d0", "int"), ("d1", "int")],
                       ["0 <= ps < pe <= 30 and 0 <= c0 < c1 and 0 <= d0 < d1"], case2, fuel=40)
    walks = params["walks"]
    n = len(walks)
    form = params["form"]
    args = []
    pre = []
    for i, w in enumerate(walks):
        args += [("ps%d" % i, "int"), ("pe%d" % i, "int")]
        tot = F.walk_len(F.parse_walk(w)) if form != "bare" else 30
        pre.append("0 <= ps%d < pe%d <= %d" % (i, i, tot))
    args += [("c%d" % i, "int") for i in range(n + 1)]
    pre.append(" < ".join(["0 <= c0"] + ["c%d" % i for i in range(1, n + 1)]))

    def case(*a):
        nums = [(a[2 * i], a[2 * i + 1]) for i in range(n)]
        cookies = list(a[2 * n:])
        recs = F.records_for(form, walks, nums)
        F.GFA_ORDER[0] = list(reversed(list(F.LAY))) if params.get("revorder") else None
        F.NONL[0] = bool(params.get("nonl"))
        try:
            idx, lines = F.run_index(recs, cookies, gz=bool(params["gz"]))
        finally:
            F.NONL[0] = False
        return F.check_index(idx, recs, cookies)

    return Harness(args, pre, case, fuel=4 * n + 12)


def replay(params, model, wd):
    if params.get("kind") == "tokens":
        return tokfam.replay(params, model, wd)
    import pickle
    import gaftools.cli.index as I
    import gaftools.gfa as G
    from gaftools.gaf import GAF

    a = model["args"]
    if params["kind"] == "coord":
        L = a[:11]
        segs = CF.layout(L)
        ref = {}
        for nid in CF.ORDER:
            sn, so, ln, sr = segs[nid]
            nd = G.Node(nid)
            nd.tags = {"LN": ("i", str(ln)), "SN": ("Z", sn), "SO": ("i", str(so)), "SR": ("i", str(sr))}
            ref.setdefault(sn, []).append(nd)
        want = []
        ivs = params.get("iv")
        if ivs:
            path = ""
            for i, (c,) in enumerate(ivs):
                x, y = a[11 + 2 * i], a[12 + 2 * i]
                path += "%s%s:%d-%d" % (">" if i % 2 == 0 else "<", c, x, y)
                want += [nid for nid in CF.ORDER if segs[nid][0] == c and segs[nid][1] < y and x < segs[nid][1] + segs[nid][2] and nid not in want]
            fields = ["r", "10", "0", "10", "+", path, "100", "0", "10"]
        else:
            c = params["bare"]
            ps, pe = a[11], a[12]
            want = [nid for nid in CF.ORDER if segs[nid][0] == c and segs[nid][1] < pe and ps < segs[nid][1] + segs[nid][2]]
            fields = ["r", "10", "0", "10", "+", c, "100", str(ps), str(pe)]
        try:
            got = I.convert_coord(fields, ref)
        except Exception as e:
            return {"reproduced": True, "key": "C03:convert_coord:exception:" + type(e).__name__, "what": "convert_coord(%r) raised %r" % (fields, e), "level": "unit"}
        bad = sorted(set(got)) != sorted(want)
        return {"reproduced": bad, "key": "C03:convert_coord:" + ("missing" if set(want) - set(got) else "extra"),
                "what": "convert_coord(%r) over %r returned %r, overlapping segments %r" % (fields, {k: list(v) for k, v in segs.items()}, got, want), "level": "unit"}
    if params["kind"] == "twice":
        LAY2 = {"s0": ("chr1", 0, 15, 0), "s1": ("chr1", 15, 10, 0), "s2": ("chr1", 25, 5, 0), "a0": ("hap-A.1", 100, 4, 1), "a1": ("hap-A.1", 110, 10, 1),
                "b0": ("hap_B#2", 7, 2, 2)}
        ps, pe = a[0], a[1]
        saved = dict(F.LAY)
        try:
            recs = F.records_for("bare", ["chr1"], [(ps, pe)])
            for k, lay in enumerate((saved, LAY2)):
                F.LAY.clear()
                F.LAY.update(lay)
                d = os.path.join(wd, "run%d" % k)
                os.makedirs(d)
                gfa, gaf, lines = F.write_real(d, recs)
                out = os.path.join(d, "x.gvi")
                try:
                    I.run(gaf, gfa, output=out)
                except BaseException as e:  # noqa
                    return {"reproduced": True, "key": "C03:twice:exception", "what": "index run %d raised %r" % (k + 1, e)}
                r = F.check_index(pickle.load(open(out, "rb")), recs, F.real_offsets(gaf))
                if r:
                    return {"reproduced": True, "key": "C03:twice:run%d" % (k + 1), "what": "run %d of gaftools index in one process (graph cut %s): %s" % (
                        k + 1, "differently" if k else "as first", r)}
            return {"reproduced": False, "detail": "both runs index correctly"}
        finally:
            F.LAY.clear()
            F.LAY.update(saved)
    walks = params["walks"]
    n = len(walks)
    nums = [(a[2 * i], a[2 * i + 1]) for i in range(n)]
    recs = F.records_for(params["form"], walks, nums)
    F.GFA_ORDER[0] = list(reversed(list(F.LAY))) if params.get("revorder") else None
    F.NONL[0] = bool(params.get("nonl"))
    gfa, gaf, lines = F.write_real(wd, recs, gz=bool(params["gz"]))
    F.NONL[0] = False
    out = os.path.join(wd, "x.gvi")
    err = None
    try:
        I.run(gaf, gfa, output=out)
    except BaseException as e:  # noqa
        err = "%s: %s" % (type(e).__name__, e)
    files = {"gaf": lines, "gfa": F.gfa_lines()}
    if err:
        return {"reproduced": True, "key": "C03:exception:%s:%s" % (err.split(":")[0], params["form"]), "what": "gaftools index raised " + err, "files": files}
    idx = pickle.load(open(out, "rb"))
    offs = F.real_offsets(gaf)
    r = F.check_index(idx, recs, offs)
    if r:
        kind = "missing" if "misses" in r or "no entry" in r else "false-entry" if "does not traverse" in r or "no record" in r else "other"
        return {"reproduced": True, "key": "C03:index:%s:%s" % (kind, params["form"]), "what": r, "files": files}
    # seeking to a listed offset returns that record
    g = GAF(gaf)
    for k, v in idx.items():
        if k == "ref_contig":
            continue
        for o in v:
            al = g.read_line(o)
            i = offs.index(o)
            if al is None or al.query_name != "r%d" % i:
                return {"reproduced": True, "key": "C03:seek", "what": "offset %r of node %s does not return record r%d" % (o, k[0], i), "files": files}
    g.close()
    if params["gz"]:
        # offsets that are computed instead of taken from tell() only differ from BGZF virtual offsets beyond the first block
        big = F.big_bgzf_index(wd, recs)
        if big:
            return {"reproduced": True, "key": "C03:index:multi-block-bgzf", "what": big, "files": files}
    return {"reproduced": False, "detail": "real index matches (also on a multi-block BGZF file)" if params["gz"] else "real index matches"}
