"""C12 — realign emits a valid global alignment of read slice to path slice (partial claim)."""
import itertools
import os

from .. import rt, stubs
from ..engine import Harness

ID = "C12"
M = {}

META = {
    "level": "other",
    "functions": {"gaftools.cli.realign": ["wfa_alignment", "realign_gaf", "PriorityAlignment"]},
    "explanation": "PARTIAL CLAIM.  The aligner is a C extension (pywfa/WFA2): that it returns a valid and optimal alignment cannot be "
    "encoded and is outside the claim.  What is decided by bounded symbolic execution (CrossHair/z3) of the real realign_gaf + "
    "wfa_alignment is everything gaftools does around it, against a STUB ALIGNER that returns an arbitrary result satisfying "
    "pywfa's contract: 1-4 (op,len) tuples with op in {M(0),I(1),D(2),X(8)}, symbolic lengths >= 1 with sum(M,X,I)=|query| and "
    "sum(M,X,D)=|ref|, cigarstring = the rendering with 'M' for op 0.  Path start/end and read start/end are symbolic.  "
    "Assertions: the aligner is constructed on path_sequence[path_start:path_end] and called on fetch(read, query_start, "
    "query_end) (a swap of roles or of start/end is a failure); the emitted cg is the stub's CIGAR with M->=, so it consumes "
    "exactly both slices; matches = sum of '=' lengths, block length = sum of all lengths; all other columns and optional "
    "fields unchanged, cg replaced in place and not duplicated; the record passes through unchanged exactly when query_end - "
    "query_start > 60000.  The stub's contract is spot-checked against the real pywfa on the repository's realign fixtures at "
    "every run (conformance).",
    "bounds": {"quick": "1 record, op sequences of length 1-3 over {M,I,D,X} (sampled) + 4 (two), symbolic offsets; 2-record stream",
               "thorough": "all op sequences of length <= 3, sampled length 4"},
    "out": ["that WFA2 returns a valid alignment ('=' columns pair equal bases, 'X' unequal) and that its cost is no worse than the input "
            "CIGAR's: C extension, not encodable", "soft-clip results (clip_cigar=False is passed)", "sequence content"],
    "assumptions": ["stub aligner obeying pywfa's documented result contract", "trivial in-process multiprocessing stand-in (schedules are C11)",
                    "path sequence and read are opaque objects that record the slice taken from them"],
}
META["explanation"] += "  parsed/record: the record comes from text through the real GAF reader, with a solver-chosen subset of eight optional fields whose values contain ':', '%', blanks, '=' and ','."
META["explanation"] += '  Every query records the reference of the aligner object it was handed to, so a reused aligner is judged by the slice it was built on.'
META["explanation"] += '  realgraph/paths uses the segment names s1 / s1.2 / s12.'

OPS = {0: "M", 1: "I", 2: "D", 8: "X"}


def setup():
    import gaftools.cli.realign as R
    import gaftools.gaf as GA

    M.update(R=R, GA=GA)


class Slice:
    def __init__(self, what, a, b):
        self.what, self.a, self.b = what, a, b


class Seq:
    """opaque sequence: only slicing is allowed, and it is recorded"""

    def __init__(self, what):
        self.what = what

    def __getitem__(self, sl):
        if not isinstance(sl, slice) or sl.step is not None:
            raise rt.Unsupported("sequence used other than by slicing")
        return Slice(self.what, sl.start, sl.stop)


def harnesses(tier):
    hs = []
    seqs = []
    for n in (1, 2, 3):
        seqs += list(itertools.product([0, 1, 2, 8], repeat=n))
    if tier == "quick":
        seqs = [s for i, s in enumerate(seqs) if len(s) < 3 or i % 4 == 0]
    seqs += [(0, 2, 0, 1), (8, 0, 1, 0)] if tier == "quick" else [s for i, s in enumerate(itertools.product([0, 1, 2, 8], repeat=4)) if i % 8 == 0]
    for s in seqs:
        if all(o == 1 for o in s) or all(o == 2 for o in s):
            continue  # an alignment of an empty slice
        hs.append({"id": "record/" + "".join(OPS[o] for o in s), "params": {"kind": "record", "ops": list(s)}, "timeout": 300, "twin": s == (0, 2, 0)})
    hs.append({"id": "stream/2", "params": {"kind": "stream"}, "timeout": 600})
    hs.append({"id": "realgraph/paths", "params": {"kind": "realgraph"}, "timeout": 600})
    hs.append({"id": "parsed/record", "params": {"kind": "parsed"}, "timeout": 600})
    return hs


def install(R, GA, recs, aligner_cls, calls):
    class P:
        def __init__(self, target=None, args=()):
            self.target, self.args = target, args
            self.exitcode = None

        def start(self):
            self.target(*self.args)
            self.exitcode = 0

        def is_alive(self):
            return False

        def join(self):
            pass

    class Q:
        def __init__(self):
            self.items = []

        def put(self, x):
            self.items.append(x)

        def get(self, timeout=None):
            import queue

            if not self.items:
                raise queue.Empty
            return self.items.pop(0)

    class MP:
        Process = P
        Queue = Q

        @staticmethod
        def cpu_count():
            return 8

    class Fasta:
        def __init__(self, p):
            pass

        def fetch(self, name, s, e):
            calls.append(("fetch", name, s, e))
            return Slice("read:" + name, s, e)

        def close(self):
            pass

    class PS:
        FastaFile = Fasta

    class Graph:
        def __init__(self, p=None, *a, **k):
            pass

        def extract_path(self, path):
            calls.append(("extract_path", path))
            return Seq("path:" + path)

    class Reader:
        def __init__(self, p):
            pass

        def read_file(self):
            for r in recs:
                yield r()

        def close(self):
            pass

    R.mp, R.pysam, R.GFA, R.GAF, R.WavefrontAligner = MP, PS, Graph, Reader, aligner_cls


TAGS = [("NM:i:", "3"), ("cg:Z:", "4=2D1=13D3="), ("id:f:", "0.96")]


def make_aligner(tuples, calls):
    class Res:
        cigartuples = tuples

    class Aligner:
        def __init__(self, ref, *more, **options):
            self.ref = ref
            calls.append(("ref", ref))
            if more or options:
                calls.append(("options", more, options))
            segs = []
            for op, ln in tuples:
                segs.append(rt.vp_fmt_("%d%s", (ln, OPS[op])))
            cs = segs[0]
            for s in segs[1:]:
                cs = cs + s
            self.cigarstring = cs

        def __call__(self, q, clip_cigar=False, **options):
            calls.append(("query", q, clip_cigar, self.ref))
            if options:
                calls.append(("options", (), options))
            return Res()

    return Aligner


def pickbit(sel, i):
    """bit i of the selector (branches on the symbolic value)"""
    return (sel // (2 ** i)) % 2 == 1


def build(params):
    if params["kind"] == "record":
        ops = params["ops"]
        k = len(ops)
        args = [("ps", "int"), ("pe", "int"), ("qs", "int"), ("qe", "int"), ("pl", "int"), ("ql", "int"), ("nm", "int"), ("bl", "int"), ("mq", "int")] + [
            ("n%d" % i, "int") for i in range(k)]
        qsum = " + ".join("n%d" % i for i in range(k) if ops[i] in (0, 8, 1)) or "0"
        rsum = " + ".join("n%d" % i for i in range(k) if ops[i] in (0, 8, 2)) or "0"
        pre = ["0 <= ps <= pe <= pl and 0 <= qs <= qe <= ql and nm >= 0 and bl >= 0 and mq >= 0", " and ".join("n%d >= 1" % i for i in range(k)),
               "qe - qs == %s" % qsum, "pe - ps == %s" % rsum]

        def case(ps, pe, qs, qe, pl, ql, nm, bl, mq, *ns):
            R, GA = M["R"], M["GA"]
            calls = []
            tuples = [(ops[i], ns[i]) for i in range(k)]
            rec = lambda: GA.Alignment("r1", ql, qs, qe, "+", ">a<b", pl, ps, pe, nm, bl, mq, True, "4=2D1=13D3=", tags={kk: v for kk, v in TAGS})
            install(R, GA, [rec], make_aligner(tuples, calls), calls)
            e = stubs.env()
            out = stubs.vp_open("o.gaf", "w")
            R.realign_gaf("in.gaf", "g.gfa", "r.fa", out, 1)
            lines = e.files["o.gaf"].lines
            if len(lines) != 1:
                return "%d output lines for 1 record" % len(lines)
            f = lines[0].rstrip("\n").split("\t")
            want12 = ["r1", ql, qs, qe, "+", ">a<b", pl, ps, pe]
            for i, w in enumerate(want12):
                if isinstance(w, str):
                    if not (f[i] == w):
                        return "column %d changed" % (i + 1)
                elif not (rt.sym_int(f[i]) == w):
                    return "column %d changed" % (i + 1)
            if not (rt.sym_int(f[11]) == mq):
                return "mapping quality changed"
            opt = f[12:]
            if len(opt) != len(TAGS):
                return "optional fields %d, input had %d (cg duplicated or lost?)" % (len(opt), len(TAGS))
            if not (opt[0] == "NM:i:3") or not (opt[2] == "id:f:0.96"):
                return "an optional field other than cg changed"
            if qe - qs > 60000:
                if any(c[0] in ("ref", "query") for c in calls):
                    return "alignment of more than 60000 read bases was realigned"
                if not (rt.sym_int(f[9]) == nm and rt.sym_int(f[10]) == bl):
                    return "pass-through changed matches / block length"
                if not (opt[1] == "cg:Z:4=2D1=13D3="):
                    return "pass-through changed the CIGAR"
                return None
            if any(c[0] == "options" for c in calls):
                return "aligner configured with non-default options %r: the assumption that WFA2 returns an optimal alignment only covers its exact default mode" % (
                    [c[1:] for c in calls if c[0] == "options"],)
            refc = [c for c in calls if c[0] == "ref"]
            qc = [c for c in calls if c[0] == "query"]
            if len(refc) != 1 or len(qc) != 1:
                return "aligner not called exactly once for a record of at most 60000 read bases"
            r, q = refc[0][1], qc[0][1]
            if not isinstance(r, Slice) or r.what != "path:>a<b" or not (r.a == ps and r.b == pe):
                return "aligner built on something else than path_sequence[path_start:path_end]"
            if not isinstance(q, Slice) or q.what != "read:r1" or not (q.a == qs and q.b == qe):
                return "aligner called on something else than read[query_start:query_end]"
            if qc[0][2] is not False:
                return "clip_cigar not disabled"
            wantcg = "cg:Z:"
            match = 0
            total = 0
            for op, ln in tuples:
                wantcg = wantcg + rt.vp_fmt_("%d%s", (ln, "=" if op == 0 else OPS[op]))
                total = total + ln
                if op == 0:
                    match = match + ln
            if not (opt[1] == wantcg):
                return "emitted cg is not the aligner's CIGAR with M replaced by ="
            if not (rt.sym_int(f[9]) == match):
                return "match count does not equal the total length of '=' runs"
            if not (rt.sym_int(f[10]) == total):
                return "block length does not equal the total CIGAR length"
            return None

        return Harness(args, pre, case, fuel=200)

    if params["kind"] == "parsed":
        # the record comes through the real GAF reader (gaftools.gaf.GAF.parse_gaf_line) from text, with optional fields whose values
        # contain ':', '%', blanks and '=': realign must hand all of them on unchanged
        PT = ["NM:i:3", "rg:Z:chr1:1000-2000", "cg:Z:4=2D1=13D3=", "tm:Z:12:30:05", "co:Z:50%%_gc %s 10% of", "id:f:0.96", "zz:Z:a=b,c;d|e", "zq:B:c,1,-2"]

        GROUP = [0, 1, 2, 1, 3, 4, 4, 3]  # selector bit that switches each field on

        def case4(ps, qs, n, pl, ql, nm, bl, mq, sel):
            R, GA = M["R"], M["GA"]
            calls = []
            pe, qe = ps + n, qs + n
            keep = [t for i, t in enumerate(PT) if pickbit(sel, GROUP[i])]
            line = rt.vp_fmt_("r1\t%d\t%d\t%d\t+\t>a<b\t%d\t%d\t%d\t%d\t%d\t%d", (ql, qs, qe, pl, ps, pe, nm, bl, mq))
            for t in keep:
                line = line + "\t" + t
            line = line + "\n"
            install(R, GA, [], make_aligner([(0, n)], calls), calls)
            R.GAF = GA.GAF
            e = stubs.env()
            e.files["in.gaf"] = stubs.MFile("text", [line], None)
            out = stubs.vp_open("o.gaf", "w")
            R.realign_gaf("in.gaf", "g.gfa", "r.fa", out, 1)
            lines = e.files["o.gaf"].lines
            if len(lines) != 1:
                return "%d output lines for 1 record" % len(lines)
            f = lines[0].rstrip("\n").split("\t")
            want12 = ["r1", ql, qs, qe, "+", ">a<b", pl, ps, pe]
            for i, w in enumerate(want12):
                if isinstance(w, str):
                    if not (f[i] == w):
                        return "column %d changed" % (i + 1)
                elif not (rt.sym_int(f[i]) == w):
                    return "column %d changed" % (i + 1)
            if not (rt.sym_int(f[11]) == mq):
                return "mapping quality changed"
            opt = f[12:]
            if not any(t.startswith("cg:Z:") for t in keep):
                keep = keep + ["cg:Z:"]  # a record without a CIGAR gains the computed one
            if len(opt) != len(keep):
                return "optional fields %r, input had %r" % ([str(x) for x in opt], keep)
            for o, t in zip(opt, keep):
                if t.startswith("cg:Z:"):
                    if not (o == rt.vp_fmt_("cg:Z:%d=", (n,))):
                        return "emitted cg is not the aligner's CIGAR"
                elif not (o == t):
                    return "optional field %r written as %r" % (t, str(o))
            return None

        return Harness([("ps", "int"), ("qs", "int"), ("n", "int"), ("pl", "int"), ("ql", "int"), ("nm", "int"), ("bl", "int"), ("mq", "int"), ("sel", "int")],
                       ["0 <= ps and 0 <= qs and 1 <= n <= 60000 and ps + n <= pl and qs + n <= ql and nm >= 0 and bl >= 0 and mq >= 0 and 0 <= sel < 32"], case4, fuel=200)

    if params["kind"] == "realgraph":
        # the reference handed to the aligner is the spelling of the walk (real GFA.extract_path, all orientation mixes)
        from . import c14

        LINKS = [("a", "+", "b", "-"), ("b", "-", "c", "+"), ("c", "+", "a", "+"), ("b", "+", "b", "+")]
        MENU = [">a<b>c", "<c>b<a", ">c>a<b", ">a", "<b<b", ">b>b", ">a<b>c>a"]

        def case3(p, ps, ln):
            R, GA = M["R"], M["GA"]
            import gaftools.gfa as G

            calls = []
            path = c14.pick(p, MENU)
            walk = [(path[i], path[i + 1]) for i in range(0, len(path), 2)]
            want = c14.spell(walk)
            start = c14.pick(ps, [0, 1, 2])
            length = c14.pick(ln, [1, 2, 3])
            if start + length > len(want):
                return "SKIP"
            c14.NAMESET[0] = 1
            xpath = c14.ptext(walk)
            rec = lambda: GA.Alignment("r1", 50, 0, length, "+", xpath, len(want), start, start + length, 1, 1, 60, True, "1=", tags={"cg:Z:": "1="})
            install(R, GA, [rec], make_aligner([(0, length)], calls), calls)
            R.GFA = G.GFA  # the real graph class, reading the model file
            e = stubs.env()
            c14.LINE_ORDER[0] = 2
            c14.NAMESET[0] = 1  # segment names s1 / s1.2 / s12
            e.files["g.gfa"] = stubs.MFile("text", c14.gfa_lines("abc", LINKS), None)
            out = stubs.vp_open("o.gaf", "w")
            R.realign_gaf("in.gaf", "g.gfa", "r.fa", out, 1)
            refs = [c[1] for c in calls if c[0] == "ref"]
            if len(refs) != 1:
                return "aligner built %d times" % len(refs)
            if refs[0] != want[start:start + length]:
                return "reference handed to the aligner for %s[%d:%d] is %r, the walk spells %r" % (path, start, start + length, refs[0], want[start:start + length])
            return None

        return Harness([("p", "int"), ("ps", "int"), ("ln", "int")], ["0 <= p <= %d and 0 <= ps <= 2 and 0 <= ln <= 2" % (len(MENU) - 1)], case3, fuel=200)

    def case2(qe0, qe1, ps0, ps1):
        R, GA = M["R"], M["GA"]
        calls = []
        recs = [(lambda i=i, qe=qe, ps=ps: GA.Alignment("r%d" % i, 100000, 0, qe, "+", ">a", 100000, ps, ps + 5, 1, 2, 60, True, "5=", tags={"cg:Z:": "5="}))
                for i, (qe, ps) in enumerate(((qe0, ps0), (qe1, ps1)))]
        install(R, GA, recs, make_aligner([(0, 5)], calls), calls)
        e = stubs.env()
        out = stubs.vp_open("o.gaf", "w")
        R.realign_gaf("in.gaf", "g.gfa", "r.fa", out, 1)
        lines = e.files["o.gaf"].lines
        if [l.split("\t")[0] for l in lines] != ["r0", "r1"]:
            return "records %r written for the stream r0, r1" % ([l.split("\t")[0] for l in lines],)
        n_aligned = len([c for c in calls if c[0] == "query"])
        want = (0 if qe0 > 60000 else 1) + (0 if qe1 > 60000 else 1)
        if n_aligned != want:
            return "%d records realigned, %d have at most 60000 read bases" % (n_aligned, want)
        # every realigned record is aligned against ITS OWN slice of the path and of its own read
        # the reference of the aligner object each query was handed to (an aligner may be reused only for the same slice)
        refs = [c[3] for c in calls if c[0] == "query"]
        qs = [c[1] for c in calls if c[0] == "query"]
        exp = [(i, ps) for i, (qe, ps) in enumerate(((qe0, ps0), (qe1, ps1))) if not (qe > 60000)]
        for (i, ps), r, q in zip(exp, refs, qs):
            if not isinstance(r, Slice) or not (r.a == ps and r.b == ps + 5):
                return "record r%d aligned against a path slice that is not [path_start:path_end] of that record" % i
            if not isinstance(q, Slice) or q.what != "read:r%d" % i:
                return "record r%d aligned with the read of another record" % i
        return None

    return Harness([("qe0", "int"), ("qe1", "int"), ("ps0", "int"), ("ps1", "int")],
                   ["0 <= qe0 <= 100000 and 0 <= qe1 <= 100000 and 0 <= ps0 <= 1000 and 0 <= ps1 <= 1000"], case2, fuel=200)


def replay(params, model, wd):
    """unmodified realign module, same stub aligner, concrete values"""
    import gaftools.cli.realign as R
    import gaftools.gaf as GA

    M.update(R=R, GA=GA)
    stubs.reset()
    if params["kind"] in ("parsed", "realgraph"):
        # these kinds read model files through real gaftools readers: give them real files
        os.chdir(wd)

        class RealFiles(dict):
            def __setitem__(self, k, mf):
                dict.__setitem__(self, k, mf)
                if getattr(mf, "lines", None):
                    with open(k, "w") as fh:
                        fh.write("".join(str(l) for l in mf.lines))

        stubs.env().files = RealFiles()
    h = build(params)
    try:
        r = h.case(*model["args"])
    except BaseException as e:  # noqa
        r = "exception %s: %s" % (type(e).__name__, e)
    if r and r != "SKIP":
        key = "C12:" + ("aligner-options" if "non-default options" in r else "roles" if "aligner" in r else "cigar" if "cg" in r or "CIGAR" in r else "counts" if "count" in r or "length" in r else
                        "guard" if "60000" in r else "columns" if "column" in r or "optional" in r else "other")
        return {"reproduced": True, "key": key, "what": r, "level": "unmodified realign_gaf/wfa_alignment around the stub aligner"}
    return {"reproduced": False, "detail": "real code satisfies the assertions for this input"}
