"""Shared machinery for C06 / C07 / C18: order_gfa on template graphs."""
import os

from .. import rt, stubs
from ..rt import NoTracing
from . import c15 as P15

M = {}


def setup():
    import gaftools.gfa as G
    import gaftools.cli.order_gfa as O

    M.update(G=G, O=O)


KINDS = ["snp", "ins", "del", "inv", "two", "tri", "nest"]
NONCHAIN = ["tip", "tricycle", "joined"]


_HOSTILE = []


def names_from_source():
    """segment ids taken from the string constants of the analysed modules themselves (order_gfa.py, gfa.py): every word-like
    piece of a constant without blanks ('Name', 'chr1', 'BO', 's', 'b', 'S', 'L', 'orange', ...) and the same followed by a
    digit.  A comparison of a segment id (or of a line that starts with one) against such a constant is the kind of slip
    that plain ids like s1 never meet."""
    if _HOSTILE:
        return _HOSTILE
    import ast
    import os
    import re
    from .. import loader

    seen = []
    for rel in ("gaftools/cli/order_gfa.py", "gaftools/gfa.py"):
        try:
            tree = ast.parse(open(os.path.join(loader.REPO, rel)).read())
        except Exception:
            continue
        for n in ast.walk(tree):
            if isinstance(n, ast.Constant) and isinstance(n.value, str) and " " not in n.value.strip():
                for tok in re.split(r"[^A-Za-z0-9_]+", n.value):
                    if 1 <= len(tok) <= 8 and tok not in seen:
                        seen.append(tok)
    for extra in ("0", "1", "b0", "b1", "H", "P", "W"):
        if extra not in seen:
            seen.append(extra)
    for t in seen:
        _HOSTILE.append(t)
    for t in seen:
        _HOSTILE.append(t + "7")
    for t in seen:
        if len(t) <= 2 and not t.isdigit():
            for d in "012":
                _HOSTILE.append(t + d)
    return _HOSTILE


class Spec:
    """abstract template graph: nodes (id -> dict(sn, sr, refpos or None, ln, seq)), links, expected chain"""

    def __init__(self):
        self.nodes = {}
        self.order = []
        self.links = []
        self.chroms = {}  # name -> list of node ids
        self.name_pos = 0  # naming 5: position in names_from_source()

    def next_source_name(self):
        names = names_from_source()
        while True:
            k = self.name_pos
            self.name_pos += 1
            nm = names[k % len(names)] + ("" if k < len(names) else "_%d" % (k // len(names)))
            if nm not in self.nodes:
                return nm

    def node(self, nid, sn, sr, refpos=None, ln=3):
        self.nodes[nid] = {"sn": sn, "sr": sr, "refpos": refpos, "ln": ln}
        self.order.append(nid)
        self.chroms.setdefault(self._chrom, []).append(nid)
        return nid

    def link(self, a, da, b, db):
        self.links.append((a, da, b, db))


def build_chain(spec, chrom, kinds, tip_start=False, tip_end=False, naming=0, extra=None):
    """appends a chromosome: reference backbone with the given bubbles; returns number of reference nodes"""
    spec._chrom = chrom
    c = chrom[-1]
    cnt = {"r": 0, "a": 0}

    base = (int(c) - 1) * 100 if c.isdigit() else 900

    def rname():
        cnt["r"] += 1
        k = cnt["r"]
        if naming == 4:
            # purely numeric segment ids counted from 0, as vg and many assemblers write them
            return str(base + cnt["r"] + cnt["a"] - 1)
        if naming == 5:
            return spec.next_source_name()
        return "%ss%02d" % (c, k if naming == 0 else 50 - k)

    def aname():
        cnt["a"] += 1
        k = cnt["a"]
        if naming == 4:
            return str(base + cnt["r"] + cnt["a"] - 1)
        if naming == 5:
            return spec.next_source_name()
        return "%sx%02d" % (c, k if naming != 2 else 50 - k) if naming < 3 else "%sa%02d" % (c, k)

    refpos = [0]

    def ref():
        nid = spec.node(rname(), chrom, 0, refpos=refpos[0])
        refpos[0] += 1
        return nid

    def alt(tag="h"):
        # every alternative node lies on its own haplotype contig, so the reference name wins the majority vote
        nm = aname()
        return spec.node(nm, "hap_%s" % nm, 1)

    prev = None
    if tip_start:
        t = ref()
        prev = ref()
        spec.link(t, "+", prev, "+")
    else:
        prev = ref()
    for kd in kinds:
        A = prev
        if kd in ("snp", "del", "inv", "two", "tri", "nest"):
            p = ref()
        if kd == "ref":
            # two consecutive reference segments with nothing between them: a bridge of two articulation points (not in KINDS: used
            # by dedicated harnesses only)
            B = ref()
            spec.link(A, "+", B, "+")
            prev = B
            continue
        B_pending = []
        if kd == "snp":
            q = alt()
            B_pending = [(A, "+", p, "+"), (A, "+", q, "+"), (p, "+", None, "+"), (q, "+", None, "+")]
        elif kd == "ins":
            q = alt()
            B_pending = [(A, "+", None, "+"), (A, "+", q, "+"), (q, "+", None, "+")]
        elif kd == "del":
            B_pending = [(A, "+", p, "+"), (p, "+", None, "+"), (A, "+", None, "+")]
        elif kd == "inv":
            B_pending = [(A, "+", p, "+"), (p, "+", None, "+"), (A, "+", p, "-"), (p, "-", None, "+")]
        elif kd == "two":
            q1, q2 = alt(), alt()
            B_pending = [(A, "+", p, "+"), (p, "+", None, "+"), (A, "+", q1, "+"), (q1, "+", q2, "+"), (q2, "+", None, "+")]
        elif kd == "tri":
            q, t = alt(), alt()
            B_pending = [(A, "+", p, "+"), (p, "+", None, "+"), (A, "+", q, "+"), (q, "+", None, "+"), (A, "+", t, "+"), (t, "+", None, "+")]
        elif kd == "nest":
            u, v1, v2, w = alt(), alt(), alt(), alt()
            B_pending = [(A, "+", p, "+"), (p, "+", None, "+"), (A, "+", u, "+"), (u, "+", v1, "+"), (u, "+", v2, "+"), (v1, "+", w, "+"),
                         (v2, "+", w, "+"), (w, "+", None, "+")]
        B = ref()
        for (x, dx, y, dy) in B_pending:
            spec.link(x, dx, B if y is None else y, dy)
        prev = B
    if tip_end:
        t = ref()
        spec.link(prev, "+", t, "+")
    if extra == "tip":
        # a branching tip hanging off the second reference node
        tnode = spec.node("%sz99" % c, "hap_%sz99" % c, 1)
        second = [n for n in spec.chroms[chrom] if spec.nodes[n]["refpos"] == (2 if tip_start else 1)]
        target = second[0] if second else prev
        spec.link(target, "+", tnode, "+")
    if extra == "tip2":
        # a dangling haplotype tip of two nodes: h1 becomes an articulation point that is not a reference node
        h1 = spec.node("%sy98" % c, "hap_%sy98" % c, 1)
        h2 = spec.node("%sy99" % c, "hap_%sy99" % c, 1)
        second = [n for n in spec.chroms[chrom] if spec.nodes[n]["refpos"] == (2 if tip_start else 1)]
        target = second[0] if second else prev
        spec.link(target, "+", h1, "+")
        spec.link(h1, "+", h2, "+")
    if extra == "tricycle":
        # three articulation points on one cycle: c1-c2-c3-c1, each with a pendant reference node
        cyc = [spec.node("%sq%d" % (c, i), "hap_%sq%d" % (c, i), 1) for i in range(3)]
        pend = [spec.node("%sw%d" % (c, i), "hap_%sw%d" % (c, i), 1) for i in range(2)]
        spec.link(prev, "+", cyc[0], "+")
        spec.link(cyc[0], "+", cyc[1], "+")
        spec.link(cyc[1], "+", cyc[2], "+")
        spec.link(cyc[2], "+", cyc[0], "+")
        spec.link(cyc[1], "+", pend[0], "+")
        spec.link(cyc[2], "+", pend[1], "+")
    return refpos[0]


def chain_elements(spec, chrom):
    """independent oracle: (elements in reference order, articulation points); element = ('s', node) | ('b', sorted inner nodes).
    Returns None when the collapsed graph is not a simple chain."""
    with NoTracing():
        nodes = list(spec.chroms[chrom])
        nset = set(nodes)
        links = [l for l in spec.links if l[0] in nset and l[2] in nset]
        if len(nodes) == 1:
            return [("s", nodes[0])], {nodes[0]}
        artic = P15.true_artic(nodes, links)
        blocks = P15.true_blocks(nodes, links)
        elements = [("s", a) for a in artic]
        adj = {}
        for b in blocks:
            inner = sorted(set(b) - artic)
            ends = sorted(set(b) & artic)
            if inner:
                el = ("b", tuple(inner))
                elements.append(el)
                for a in ends:
                    adj.setdefault(el, set()).add(("s", a))
                    adj.setdefault(("s", a), set()).add(el)
            else:
                if len(ends) != 2:
                    return None
                adj.setdefault(("s", ends[0]), set()).add(("s", ends[1]))
                adj.setdefault(("s", ends[1]), set()).add(("s", ends[0]))
        if len(elements) == 1:
            return elements, artic
        deg = {el: len(adj.get(el, ())) for el in elements}
        if sorted(deg.values()) != [1, 1] + [2] * (len(elements) - 2):
            return None

        def pos(el):
            ns = [el[1]] if el[0] == "s" else list(el[1])
            ps = [spec.nodes[n]["refpos"] for n in ns if spec.nodes[n]["refpos"] is not None]
            return min(ps) if ps else None

        ends = [el for el in elements if deg[el] == 1]
        p0, p1 = pos(ends[0]), pos(ends[1])
        if p0 is None or p1 is None:
            # an end element without reference node: orient by the neighbouring element
            start = ends[0] if (p0 is not None and (p1 is None)) else ends[1] if p1 is not None else ends[0]
            if p0 is None and p1 is None:
                return None
            # the end that HAS a reference position: is it the low or the high end?  compare with its neighbour
            other = ends[1] if start is ends[0] else ends[0]
            nb = pos(list(adj[start])[0])
            if nb is not None and pos(start) > nb:
                start = other
        else:
            start = ends[0] if p0 < p1 else ends[1]
        order = [start]
        prev = None
        cur = start
        while True:
            nxt = [x for x in adj.get(cur, ()) if x != prev]
            if not nxt:
                break
            prev, cur = cur, nxt[0]
            order.append(cur)
        if len(order) != len(elements):
            return None
        return order, artic


def so_layout(spec, chrom, lens, so0=0):
    """SO of the reference nodes of a chromosome from (symbolic) lengths, in reference order"""
    refs = sorted([n for n in spec.chroms[chrom] if spec.nodes[n]["refpos"] is not None], key=lambda n: spec.nodes[n]["refpos"])
    so = {}
    pos = so0
    for n, ln in zip(refs, lens):
        so[n] = (pos, ln)
        pos = pos + ln
    return so


def n_refs(spec, chrom):
    return len([n for n in spec.chroms[chrom] if spec.nodes[n]["refpos"] is not None])


def direct_graph(spec, so, order=None, link_order=None, stale=False):
    """GFA object filled as read_graph fills it (tags as text), without going through the parser"""
    G = M["G"]
    g = G.GFA()
    ids = list(order or spec.order)
    for nid in ids:
        nd = spec.nodes[nid]
        n = G.Node(nid)
        if nid in so:
            s, ln = so[nid]
            n.tags = {"LN": ("i", rt.mk([rt.Num(ln)])), "SN": ("Z", nd["sn"]), "SO": ("i", rt.mk([rt.Num(s)])), "SR": ("i", "0")}
        else:
            n.tags = {"LN": ("i", "3"), "SN": ("Z", nd["sn"]), "SO": ("i", "5"), "SR": ("i", str(nd["sr"]))}
        if stale:
            n.tags["BO"] = ("i", "7")
            n.tags["NO"] = ("i", "3")
        g.nodes[nid] = n
        if g.contigs[nd["sn"]] is None:
            g.contigs[nd["sn"]] = nd["sr"]
        g.contig_to_nodes[nd["sn"]].append(nid)
    for (a, da, b, db) in (link_order or spec.links):
        g.add_edge(a, da, b, db, 0, [0])
    return g


def orderings(spec, variant):
    ids = list(spec.order)
    links = list(spec.links)
    if variant == 1:
        ids.reverse()
        links.reverse()
    elif variant == 2:
        ids = ids[len(ids) // 2:] + ids[:len(ids) // 2]
        links = links[1::2] + links[0::2]
    elif variant == 3:
        ids = sorted(ids, reverse=True)
        links = [(b, {"+": "-", "-": "+"}[db], a, {"+": "-", "-": "+"}[da]) for (a, da, b, db) in links]
    return ids, links


def check_order(spec, chrom, node_order, bo_start, bo_end, scaffold):
    """C06 assertions for one chromosome given the (id -> (BO, NO)) mapping produced by the code"""
    oc = chain_elements(spec, chrom)
    if oc is None:
        return "HARNESS: template is not a chain"
    elements, artic = oc
    if set(scaffold) != set(artic) and len(spec.chroms[chrom]) > 1:
        return "scaffold nodes %r are not the articulation points %r" % (sorted(scaffold), sorted(artic))
    last = None
    for el in elements:
        ns = [el[1]] if el[0] == "s" else list(el[1])
        for n in ns:
            if n not in node_order:
                return "node %s got no BO/NO" % n
        bo = node_order[ns[0]][0]
        if el[0] == "s":
            if not (node_order[ns[0]][1] == 0):
                return "scaffold node %s has NO != 0" % ns[0]
        else:
            for i, n in enumerate(sorted(ns)):
                if not (node_order[n][0] == bo):
                    return "nodes of one bubble carry different BO (%s)" % n
                if not (node_order[n][1] == i + 1):
                    return "bubble node %s: NO is not its 1-based rank in id order" % n
        if not (bo >= bo_start):
            return "BO below the start of the chromosome's range"
        if last is not None and not (last < bo):
            return "BO does not increase along the chain at %r (reference order)" % (el[1],)
        last = bo
    if not (bo_end > last):
        return "running BO counter does not exceed the BOs handed out"
    return None


# ------------------------------------------------------------------------------------------
# text form (for run_order_gfa end to end and for replay)


def gfa_text(spec, so, order=None, link_order=None, stale=False, with_seq=True, extra_lines=()):
    lines = ["H\tVN:Z:1.0\n"]
    for nid in (order or spec.order):
        nd = spec.nodes[nid]
        if nid in so:
            s, ln = so[nid]
            seq = ("ACGT" * 50)[:ln] if with_seq and isinstance(ln, int) else "*"
            line = "S\t%s\t%s\tLN:i:%d\tSN:Z:%s\tSO:i:%d\tSR:i:0" % (nid, seq, ln, nd["sn"], s)
        else:
            line = "S\t%s\t%s\tLN:i:3\tSN:Z:%s\tSO:i:5\tSR:i:%d" % (nid, "GAT" if with_seq else "*", nd["sn"], nd["sr"])
        if stale:
            line += "\tBO:i:7\tNO:i:3"
        lines.append(line + "\n")
    for (a, da, b, db) in (link_order or spec.links):
        lines.append("L\t%s\t%s\t%s\t%s\t0M\n" % (a, da, b, db))
    lines.extend(extra_lines)
    return lines


def parse_gfa(lines):
    """independent reader (no gaftools code): segments {id: (seq, [tags])}, links as canonical tuples"""
    segs = {}
    links = []
    kinds = []
    flip = {"+": "-", "-": "+"}
    for l in lines:
        l = l.rstrip("\n")
        if not l:
            continue
        f = l.split("\t")
        kinds.append(f[0])
        if f[0] == "S":
            if f[1] in segs:
                segs[f[1] + "#dup"] = (f[2], f[3:])
            segs[f[1]] = (f[2], f[3:])
        elif f[0] == "L":
            a, da, b, db, ov = f[1:6]
            c1 = (a, da, b, db)
            c2 = (b, flip[db], a, flip[da])
            links.append((min(c1, c2), ov, tuple(f[6:])))
    return segs, links, kinds


def tagval(tags, name):
    for t in tags:
        if t.startswith(name + ":"):
            return t.split(":", 2)[2]
    return None
