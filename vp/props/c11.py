"""C11 — realign output is exactly-once and in input order under every schedule."""
import os

from . import realignfam as F
from ..engine import Harness
from .. import rt

ID = "C11"
setup = F.setup
FAULTS = False

META = {
    "level": "model_checking",
    "functions": {"gaftools.cli.realign": ["realign_gaf", "wfa_alignment", "one_is_alive", "all_exited", "PriorityAlignment"]},
    "technique": "bounded symbolic exploration of all schedules: the real collection loops run against a lazy observational model "
                 "of multiprocessing whose every choice is a fresh solver-decided integer (CrossHair + z3)",
    "explanation": "The real realign_gaf (both collection loops), wfa_alignment, one_is_alive, all_exited and the PriorityQueue "
    "re-ordering are executed by CrossHair against a model of multiprocessing in which every observation the parent makes is a "
    "fresh symbolic choice: Queue.get hands over the next item of any worker that still has undelivered items, or times out "
    "(queue.Empty) unless a worker already observed dead still has items in the pipe; is_alive answers alive or exited "
    "(monotone); join forces exit.  Process.start runs the real wfa_alignment on the batch to obtain the exact delivery "
    "sequence.  The solver enumerates every feasible schedule inside the bound (W workers, B records per batch through the "
    "GAFTOOLS_VERIF_BATCH_SIZE hook, R rounds, idle budget T).  Assertion: exactly one line per input record, in input order, "
    "no exception, normal return.",
    "bounds": {"quick": "(W,B,records,T) in {(1,1,1,1), (1,2,2,1), (1,1,2,1), (2,1,2,1), (1,1,1,2), (1,2,3,1), (2,1,1,1), (3,2,2,1)} - the last two have fewer full "
                        "batches than cores, so full batches reach the leftover stage",
               "thorough": "adds (2,1,2,2), (2,2,4,1), (3,1,3,1), (2,1,4,1), (2,1,3,1)"},
    "out": ["unbounded idling of the parent while a worker computes", "pickling inside the real mp.Queue", "a worker killed in the middle "
            "of a pipe write (message corruption / lock held): deliveries are atomic in the model", "--cores above cpu_count()"],
    "assumptions": ["a normally exited worker has flushed its items into the pipe (multiprocessing joins the feeder thread at exit)",
                    "stubs for GAF reader, GFA.extract_path, pysam.FastaFile and WavefrontAligner (constant 10M alignment)"],
}
META["explanation"] += '  Records alternate between three kinds: short (realigned), more than 60000 read bases without optional fields, more than 60000 read bases with three optional fields (both passed through by the worker); every written part must be one well-formed line.'
META["explanation"] += '  Each configuration is driven through one of three entry points: realign_gaf, run_realign writing to standard output, run_realign writing to a file.'

CONFIGS = {
    "quick": [(1, 1, 1, 1), (1, 2, 2, 1), (1, 1, 2, 1), (2, 1, 2, 1), (1, 1, 1, 2), (1, 2, 3, 1), (2, 1, 1, 1), (3, 2, 2, 1), (2, 2, 4, 0)],
    "thorough": [(2, 1, 1, 1), (3, 2, 2, 1), (3, 1, 2, 1), (1, 1, 1, 1), (1, 2, 2, 1), (1, 1, 2, 1), (2, 1, 2, 1), (1, 1, 1, 2), (1, 2, 3, 1), (2, 1, 2, 2), (2, 2, 4, 1), (3, 1, 3, 1),
                 (2, 1, 4, 1), (2, 1, 3, 1)],
}


def harnesses(tier, faults=False):
    hs = []
    for (w, b, n, t) in CONFIGS[tier]:
        big = w * n >= 6 or t > 1 and w > 1 or (w, b, n) == (2, 2, 4)
        hs.append({"id": "sched/W%d-B%d-N%d-T%d" % (w, b, n, t), "params": {"W": w, "B": b, "N": n, "T": t},
                   "timeout": 3000 if big else 900, "path_timeout": 120, "twin": (w, b, n, t) == (1, 1, 1, 1)})
    return hs


def build(params, faults=False):
    W, B, N, T = params["W"], params["B"], params["N"], params["T"]

    def case(dummy):
        R, GA = F.M["R"], F.M["GA"]
        rt.set_fuel(40 * (N + W) * (T + 2))
        outcome, names, trace, events, faulty = F.run_schedule(R, GA, W, B, N, T, faults)
        v = F.judge(outcome, names, N, faulty)
        if v == "SKIP":
            return "SKIP"
        if v is None:
            if len(rt.SAMPLES) < 3 and len(events) > 3:
                rt.SAMPLES.append({"schedule": [str(x) for x in events], "outcome": outcome, "written": [str(x) for x in names]})
            return None
        rt.EXTRA["trace"] = trace
        rt.EXTRA["events"] = events
        rt.EXTRA["outcome"] = outcome
        rt.EXTRA["written"] = names
        return v[1]

    return Harness([("dummy", "int")], ["dummy == 0"], case, fuel=10**6)


def replay(params, model, wd, faults=False, prop="C11"):
    """the unmodified realign module under the recorded schedule (scripted model of multiprocessing)"""
    import gaftools.cli.realign as R
    import gaftools.gaf as GA

    extra = model.get("extra") or {}
    trace = extra.get("trace")
    if trace is None:
        return {"reproduced": False, "error": "no schedule recorded"}
    W, B, N, T = params["W"], params["B"], params["N"], params["T"]
    outcome, names, tr, events, faulty = F.run_schedule(R, GA, W, B, N, T + 1000, faults, script=trace)
    v = F.judge(outcome, names, N, faulty)
    if v is None or v == "SKIP":
        return {"reproduced": False, "detail": "schedule %r: outcome %s, written %r" % (events, outcome, names)}
    real = None
    try:
        real = real_processes(wd, v[0], W, B, N)
    except Exception as e:  # pragma: no cover
        real = {"attempted": False, "error": repr(e)}
    return {"reproduced": True, "key": "%s:%s" % (prop, v[0]), "what": "%s under the schedule %s" % (v[1], " ".join(events)),
            "level": "unmodified realign_gaf under the scripted schedule" + (
                "; also reproduced with real processes" if real and real.get("reproduced") else ""),
            "real_processes": real, "schedule": events}


def real_processes(wd, kind, W, B, N):
    """best effort: reproduce the class of failure with real multiprocessing (real Process, real Queue).  The parent is
    delayed at the point where the race / the fault matters by wrapping one_is_alive / the worker target."""
    import subprocess
    import sys

    script = os.path.join(os.path.dirname(os.path.abspath(__file__)), "..", "realproc.py")
    env = dict(os.environ)
    env["MARSCHALL_LAB_GAFTOOLS_VERIF"] = "1"
    env["GAFTOOLS_VERIF_BATCH_SIZE"] = str(B)
    p = subprocess.run([sys.executable, script, kind, str(W), str(N), wd], capture_output=True, text=True, timeout=120, env=env)
    for line in p.stdout.splitlines():
        if line.startswith("REALPROC "):
            import json

            return json.loads(line[9:])
    return {"attempted": True, "reproduced": False, "error": (p.stderr or p.stdout)[-500:]}
