"""C04 — view --node returns exactly the records touching the nodes."""
import itertools
import json
import os

from .. import rt, stubs
from ..engine import Harness, Direct
from . import tokfam
from . import idxfam as F

ID = "C04"
setup = F.setup

META = {
    "level": "other",
    "functions": {"gaftools.cli.view": ["run"], "gaftools.cli.index": ["run", "convert_coord"], "gaftools.gaf": ["Alignment.__str__"],
                  "gaftools.conversion": ["to_stable", "to_unstable"]},
    "explanation": "Bounded symbolic execution (CrossHair/z3) of the real index.run followed by the real view.run in the SAME "
    "execution (the index that view loads is the one index just produced, so both are checked against each other and against "
    "an independent oracle).  Records (unstable or stable form, text or BGZF) have symbolic start/end and symbolic file "
    "offsets; the query list (1-3 nodes, with repeats, including a node nobody aligns to and a node a record visits twice) is "
    "chosen by symbolic selectors.  Oracle: the records whose walk contains a queried node, each once, in file order; "
    "CommandLineError iff that set is empty; without --format each selected record equals its input line field by field; "
    "with --format the output equals the whole-file conversion of the same execution restricted to the selected records; "
    "with neither selection nor format the file is reproduced line for line.",
    "bounds": {"quick": "3 records, node universe of 6 (one unaligned, one visited twice), query lists of length <= 2 (all) and 3 (sampled)",
               "thorough": "all query lists of length <= 3"},
    "out": ["> 3 records", "> 3 queried nodes", "nodes that are not in the graph"],
    "assumptions": ["model file system with offset cookies; pickle round trip is the identity", "GAF reader stub for read_line(offset) except in the nodes-real-reader/* harnesses"],
}
META["explanation"] += '  Segment names are mixed (s0, s1-alt, s1.2, b#0|x) and every second read name carries a comment after a blank (the documented cut).  tokens/cli/index.py: the path tokenizers of index.py decided as languages by z3.'
META["explanation"] += '  nodes-real-reader/* read the records through the real GAF class (GAF.__init__, read_line, parse_gaf_line) instead of the reader stub; nodes/bare/* use a record given as a bare contig with symbolic path start/end; no-final-newline variants; the replay of compressed variants also runs a multi-block BGZF file.'

# record menu: r0 visits s0 twice; nobody aligns to s2
WALKS = [">s0>s1>s0", ">s1>a1", "<b0<s1"]
UNIVERSE = ["s0", "s1", "s2", "a0", "a1", "b0"]


def harnesses(tier):
    hs = []
    for form in ("unstable", "stable"):
        for gz in (0, 1):
            for fmt in (None, "conv"):
                for qlen in (1, 2):
                    hs.append({"id": "nodes/%s/%s/%s/q%d" % (form, "bgzf" if gz else "text", fmt or "asis", qlen),
                               "params": {"kind": "nodes", "form": form, "gz": gz, "fmt": fmt, "qlen": qlen}, "timeout": 900,
                               "twin": (form, gz, fmt, qlen) == ("unstable", 0, None, 1)})
    for fmt in (None, "conv"):
        hs.append({"id": "nodes-revorder/stable/text/%s/q2" % (fmt or "asis"), "params": {"kind": "nodes", "form": "stable", "gz": 0, "fmt": fmt, "qlen": 2,
                                                                                       "revorder": True}, "timeout": 900})
    for form in ("unstable", "stable"):
        first = range(len(UNIVERSE)) if tier == "thorough" else (0, 2)
        for f0 in first:
            hs.append({"id": "nodes/%s/text/asis/q3-%s" % (form, UNIVERSE[f0]), "params": {"kind": "nodes", "form": form, "gz": 0, "fmt": None, "qlen": 3, "first": f0},
                       "timeout": 1200})
    for gz in (0, 1):
        hs.append({"id": "nodes-defaultindex/unstable/%s/q1" % ("bgzf" if gz else "text"),
                   "params": {"kind": "nodes", "form": "unstable", "gz": gz, "fmt": None, "qlen": 1, "default_index": True}, "timeout": 600})
    for fmt in (None, "conv"):
        hs.append({"id": "nodes/unstable/text/%s/q1/no-final-newline" % (fmt or "asis"), "params": {"kind": "nodes", "form": "unstable", "gz": 0, "fmt": fmt, "qlen": 1, "nonl": True},
                   "timeout": 600})
    # the records go through the real GAF reader (GAF.__init__, read_line, parse_gaf_line) instead of the reader stub
    for form in ("unstable", "stable"):
        for gz in (0, 1):
            hs.append({"id": "nodes-real-reader/%s/%s/asis/q1" % (form, "bgzf" if gz else "text"),
                       "params": {"kind": "nodes", "form": form, "gz": gz, "fmt": None, "qlen": 1, "real_reader": True, "nonl": not gz}, "timeout": 900})
    # records given as a bare contig name with symbolic path start/end (the nodes under [start, end) are the ones traversed)
    for gz in (0, 1):
        hs.append({"id": "nodes/bare/%s/asis/q1" % ("bgzf" if gz else "text"), "params": {"kind": "nodes", "form": "bare", "gz": gz, "fmt": None, "qlen": 1, "walks": ["chr1"]},
                   "timeout": 900})
    hs.append({"id": "noindex/error", "params": {"kind": "noindex", "form": "unstable", "gz": 0}, "timeout": 300})
    for form in ("unstable", "stable"):
        for gz in (0, 1):
            hs.append({"id": "whole/%s/%s" % (form, "bgzf" if gz else "text"), "params": {"kind": "whole", "form": form, "gz": gz}, "timeout": 300})
    hs.append(tokfam.harness("C04", "gaftools/cli/index.py"))
    return hs


def pick(sel, options):
    for i, o in enumerate(options):
        if sel == i:
            return o
    return options[-1]


def fields_equal(a, b, whole_name_ok=False):
    fa, fb = a.rstrip("\n").split("\t"), b.rstrip("\n").split("\t")
    if len(fa) != len(fb):
        return False
    for k, (x, y) in enumerate(zip(fa, fb)):
        if k == 0:
            # read names are concrete text; the documented cut at the first blank
            if str(x) == str(y).split(" ")[0] or (whole_name_ok and str(x) == str(y)):
                continue
            return False
        if not (x == y):
            return False
    return True


def build(params):
    if params.get("kind") == "tokens":
        return Direct(lambda: tokfam.run(params))
    form = params["form"]
    walks = params.get("walks") or WALKS
    n = len(walks)
    args = []
    pre = []
    for i, w in enumerate(walks):
        args += [("ps%d" % i, "int"), ("pe%d" % i, "int")]
        pre.append("0 <= ps%d < pe%d <= %d" % (i, i, F.walk_len(F.parse_walk(w)) if form != "bare" else 30))
    args += [("c%d" % i, "int") for i in range(n + 1)]
    pre.append(" < ".join(["0 <= c0"] + ["c%d" % i for i in range(1, n + 1)]))
    if params["kind"] == "nodes":
        ql = params["qlen"]
        args += [("q%d" % i, "int") for i in range(ql)]
        for i in range(ql):
            if i == 0 and "first" in params:
                pre.append("q0 == %d" % params["first"])
            else:
                pre.append("0 <= q%d <= %d" % (i, len(UNIVERSE) - 1))

    def case(*a):
        V, C = F.M["V"], F.M["C"]
        e = stubs.env()
        nums = [(a[2 * i], a[2 * i + 1]) for i in range(n)]
        cookies = list(a[2 * n:3 * n + 1])
        recs = F.records_for(form, walks, nums)
        F.GFA_ORDER[0] = list(reversed(list(F.LAY))) if params.get("revorder") else None
        if params["kind"] == "noindex":
            # no index next to the GAF and none given: a user-level error, not an internal one
            lines_, gname = F.install_files(recs, cookies, False)
            try:
                V.run("in.gaf", output="o.gaf", nodes=["s0"])
            except C.CommandLineError:
                return None
            return "view -n without an index did not report the missing index"
        F.NONL[0] = bool(params.get("nonl"))
        F.REAL_READER[0] = bool(params.get("real_reader"))
        try:
            idx, lines = F.run_index(recs, cookies, gz=bool(params["gz"]), default_path=bool(params.get("default_index")))
        finally:
            F.NONL[0] = False
            F.REAL_READER[0] = False
        if params["kind"] == "whole":
            V.run("in.gaf", output="o.gaf")
            out = e.files["o.gaf"].lines
            if len(out) != n:
                return "whole-file view wrote %d lines for %d records" % (len(out), n)
            for i in range(n):
                if not fields_equal(out[i], lines[i], whole_name_ok=True):
                    return "whole-file view changed record %d" % i
            return None
        query = [pick(a[3 * n + 1 + i], UNIVERSE) for i in range(params["qlen"])]
        want = [i for i, r in enumerate(recs) if any(nn in query for nn in F.expected_nodes(r))]
        fmt = None
        if params["fmt"]:
            fmt = "stable" if form == "unstable" else "unstable"
        try:
            V.run("in.gaf", gfa="g.gfa", output="o.gaf", index=(None if params.get("default_index") else "in.gaf.gvi"), nodes=[F.nm(q) for q in query], format=fmt)
            raised = False
        except C.CommandLineError:
            raised = True
        if not want:
            return None if raised else "no queried node has alignments but view did not report 'nothing found'"
        if raised:
            return "view reported nothing although records %r traverse %r" % (want, query)
        out = list(e.files["o.gaf"].lines)
        names = [l.split("\t")[0] for l in out]
        if names != ["r%d" % i for i in want]:
            return "query %r: expected records %r, got %r" % (query, ["r%d" % i for i in want], names)
        if fmt is None:
            for l, i in zip(out, want):
                if not fields_equal(l, lines[i]):
                    return "selected record r%d differs from the input line" % i
        else:
            V.run("in.gaf", gfa="g.gfa", output="all.gaf", format=fmt)
            allout = e.files["all.gaf"].lines
            if len(allout) != n:
                return "whole-file conversion wrote %d lines" % len(allout)
            for l, i in zip(out, want):
                if not fields_equal(l, allout[i]):
                    return "selected+converted record r%d differs from converting the whole file" % i
        return None

    return Harness(args, pre, case, fuel=60)


def replay(params, model, wd):
    if params.get("kind") == "tokens":
        return tokfam.replay(params, model, wd)
    import gaftools.cli.index as I
    import gaftools.cli.view as V
    from gaftools.cli import CommandLineError

    a = model["args"]
    walks = params.get("walks") or WALKS
    n = len(walks)
    form = params["form"]
    if params["kind"] == "noindex":
        recs0 = F.records_for(form, WALKS, [(a[2 * i], a[2 * i + 1]) for i in range(n)])
        gfa0, gaf0, lines0 = F.write_real(wd, recs0)
        try:
            V.run(gaf0, output=os.path.join(wd, "o.gaf"), nodes=["s0"])
        except CommandLineError:
            return {"reproduced": False, "detail": "missing index reported"}
        except BaseException as e:  # noqa
            return {"reproduced": True, "key": "C04:noindex:%s" % type(e).__name__, "what": "view -n without index: %r" % (e,)}
        return {"reproduced": True, "key": "C04:noindex:silent", "what": "view -n without an index returned normally"}
    nums = [(a[2 * i], a[2 * i + 1]) for i in range(n)]
    recs = F.records_for(form, walks, nums)
    F.GFA_ORDER[0] = list(reversed(list(F.LAY))) if params.get("revorder") else None
    F.NONL[0] = bool(params.get("nonl"))
    gfa, gaf, lines = F.write_real(wd, recs, gz=bool(params["gz"]))
    F.NONL[0] = False
    try:
        I.run(gaf, gfa)
    except BaseException as e:  # noqa
        return {"reproduced": True, "key": "C04:index-exception:%s" % type(e).__name__, "what": "gaftools index raised %r before view could be run" % (e,),
                "files": {"gaf": lines}}
    out = os.path.join(wd, "o.gaf")
    files = {"gaf": lines}
    if params["kind"] == "whole":
        V.run(gaf, output=out)
        import gc

        gc.collect()
        got = open(out).read().splitlines()
        bad = got != lines and got != [F.cut_name(l) for l in lines]
        return {"reproduced": bad, "key": "C04:whole-file", "what": "view without selection wrote %r" % (got,), "files": files}
    query = [UNIVERSE[a[3 * n + 1 + i]] for i in range(params["qlen"])]
    want = [i for i, r in enumerate(recs) if any(nn in query for nn in F.expected_nodes(r))]
    fmt = None
    if params["fmt"]:
        fmt = "stable" if form == "unstable" else "unstable"
    res = "ok"
    try:
        V.run(gaf, gfa=gfa, output=out, nodes=[F.nm(q) for q in query], format=fmt)
    except CommandLineError:
        res = "nothing-found"
    except BaseException as e:  # noqa
        res = "error:%s: %r" % (type(e).__name__, e)
    import gc

    gc.collect()
    got = open(out).read().splitlines() if os.path.exists(out) else []
    files.update(query=query, output=got, result=res)
    unaligned = [q for q in query if not any(q in F.expected_nodes(r) for r in recs)]
    if res.startswith("error"):
        return {"reproduced": True, "key": "C04:internal-error:%s:%s" % (res.split(":")[1], "unaligned-node" if unaligned else "aligned"),
                "what": "view -n %s: %s" % (" -n ".join(query), res), "files": files}
    if not want:
        return {"reproduced": res != "nothing-found", "key": "C04:empty-not-reported", "what": "no alignments for %r but %s" % (query, res), "files": files}
    if res == "nothing-found":
        return {"reproduced": True, "key": "C04:missing", "what": "view reports nothing for %r" % query, "files": files}
    names = [l.split("\t")[0] for l in got]
    wantn = ["r%d" % i for i in want]
    if names != wantn:
        key = "duplicates" if len(names) != len(set(names)) else "missing" if set(wantn) - set(names) else "extra" if set(names) - set(wantn) else "order"
        return {"reproduced": True, "key": "C04:" + key, "what": "view -n %s printed %r, expected %r" % (" -n ".join(query), names, wantn), "files": files}
    if fmt is None:
        for l, i in zip(got, want):
            if l != F.cut_name(lines[i]):
                return {"reproduced": True, "key": "C04:content", "what": "record r%d printed as %r, input %r" % (i, l, lines[i]), "files": files}
    else:
        allo = os.path.join(wd, "all.gaf")
        V.run(gaf, gfa=gfa, output=allo, format=fmt)
        gc.collect()
        allout = open(allo).read().splitlines()
        for l, i in zip(got, want):
            if l != allout[i]:
                return {"reproduced": True, "key": "C04:convert-vs-select", "what": "record r%d: select+convert %r, convert whole file %r" % (i, l, allout[i]), "files": files}
    if params["gz"] and fmt is None:
        # offsets of a compressed file only differ from stream positions beyond the first BGZF block
        big = F.big_bgzf_view(wd, recs, query)
        if big:
            return {"reproduced": True, "key": "C04:multi-block-bgzf", "what": big, "files": files}
    return {"reproduced": False, "detail": "view -n output matches" + (" (also on a multi-block BGZF file)" if params["gz"] else ""), "files": files}
