"""C06 — order_gfa assigns BO/NO tags that encode the bubble chain."""
import itertools
import json
import os

from .. import rt, stubs
from ..engine import Harness
from . import orderfam as F

ID = "C06"
setup = F.setup

META = {
    "level": "other",
    "functions": {"gaftools.cli.order_gfa": ["decompose_and_order", "run_order_gfa", "name_comps", "count_sn"],
                  "gaftools.gfa": ["GFA.biccs", "GFA.dfs", "GFA.all_components", "GFA.graph_from_comp", "GFA.add_edge", "GFA.add_node"]},
    "explanation": "Bounded symbolic execution (CrossHair/z3) of the real decompose_and_order / run_order_gfa on template chains "
    "assembled from bubble kinds {SNP-like, insertion, deletion, inversion, two-segment allele, 3-allele, nested bubble} with "
    "optional tips at the chain ends.  Symbolic and unbounded: the length (hence SO) of every reference node, bo_start.  "
    "Enumerated: template, node naming (sorted-id order vs. structure), S/L line order (4 variants, one of them declaring every "
    "link from the other end), stale BO/NO tags, PYTHONHASHSEED in {0,1,2}.  Oracle, independent of the library: articulation "
    "points by the removal definition, bubbles as classes of links on a common simple cycle minus articulation points, chain "
    "order by reference position.  Assertions: scaffold nodes = articulation points with NO 0; inner nodes of a bubble share "
    "its BO and have NO = 1..M in sorted-id order; BO strictly increases along the chain in reference order; all BO >= "
    "bo_start and the returned counter exceeds them (one inductive step => disjoint ordered ranges for any number of "
    "chromosomes); identical result for every line order and with stale tags; run_order_gfa numbers the chromosomes in the "
    "requested order.",
    "bounds": {"quick": "all chains of <=2 bubbles (56) + 24 chains of 3 bubbles, 2 line orders each; 2-3 chromosomes end to end",
               "thorough": "all chains of <=3 bubbles x 4 line orders x 3 hash seeds; sampled chains of 4 bubbles"},
    "out": ["bubble kinds outside the menu", "> 4 bubbles per chromosome", "chains whose end bubble holds no reference node"],
    "assumptions": ["graph object filled as read_graph fills it (tags as decimal renderings); read_graph itself is C07",
                    "time.perf_counter / logger stubbed"],
}
META["explanation"] += '  runtext/*: the same multi-chromosome run through the real read_graph from GFA text, with the line order (link lines first, each link before the segment line of its second end, alternating) and a rotation of the S lines chosen by the solver; the chromosomes include one that is a single segment and one that is a single bubble.'
META["explanation"] += '  chain-numeric-ids/*: plain numeric segment ids; chain-ids-from-source/*: segment ids taken from the string constants of order_gfa.py and gfa.py as they are at run time.'
META["explanation"] += '  chain-adjacent-scaffolds/*: two scaffold nodes next to each other (a reference boundary without a variant); a sixth chromosome of that kind in run/*; the chain replay also checks the counter decompose_and_order hands back.'


def templates(tier):
    out = []
    for m in (0, 1, 2):
        for ks in itertools.product(F.KINDS, repeat=m):
            out.append(list(ks))
    three = list(itertools.product(F.KINDS, repeat=3))
    if tier == "quick":
        three = [k for i, k in enumerate(three) if i % 15 == 0]
    out += [list(k) for k in three]
    if tier == "thorough":
        four = list(itertools.product(F.KINDS, repeat=4))
        out += [list(k) for i, k in enumerate(four) if i % 60 == 0]
    return out


def harnesses(tier):
    hs = []
    tl = templates(tier)
    for i, ks in enumerate(tl):
        tips = [(False, False), (True, False), (False, True), (True, True)][i % 4]
        variants = (0, 1, 2, 3) if tier == "thorough" else ((i % 4), (i + 1) % 4)
        seeds = (0, 1, 2) if tier == "thorough" else (i % 3,)
        if len(ks) == 0 and not any(tips):
            tips = (True, True)
        for seed in seeds:
            hs.append({"id": "chain/%s/t%d%d/v%s/h%d" % ("-".join(ks) or "none", tips[0], tips[1], "".join(map(str, variants)), seed),
                       "params": {"kind": "chain", "kinds": ks, "tips": list(tips), "variants": list(variants), "naming": i % 3, "hashseed": seed},
                       "timeout": 300 + 200 * len(ks), "twin": i == 9})
    # purely numeric segment ids ("0", "1", ...)
    for ks, tips in ((["snp"], (True, True)), (["snp", "del"], (True, True)), (["ins", "two"], (True, False)), (["tri", "nest", "inv"], (False, True)), (["snp", "snp"], (False, False))):
        hs.append({"id": "chain-numeric-ids/%s/t%d%d" % ("-".join(ks), tips[0], tips[1]),
                   "params": {"kind": "chain", "kinds": ks, "tips": list(tips), "variants": [0, 1], "naming": 4, "hashseed": len(ks) % 3}, "timeout": 600})
    # segment ids taken from the string constants of order_gfa.py / gfa.py (Name, chr1, BO, s, b, S, L, ... and the same + digit)
    nsrc = len(F.names_from_source())
    for j, k in enumerate(range(0, nsrc, 9)):
        kinds, tips = ((["snp", "ins", "two"], [True, True]), (["del", "snp", "tri"], [True, False]), (["two", "snp"], [False, True]))[j % 3]
        hs.append({"id": "chain-ids-from-source/%d" % k, "params": {"kind": "chain", "kinds": kinds, "tips": tips, "variants": [0, 3], "naming": 5,
                                                                    "name_pos": k, "hashseed": j % 3}, "timeout": 600})
    # two scaffold nodes next to each other in the chain (reference segment boundary without a variant)
    for ks, tips in ((["snp", "ref", "snp"], (True, True)), (["ref", "ins"], (False, True)), (["del", "ref", "ref", "two"], (True, False))):
        hs.append({"id": "chain-adjacent-scaffolds/%s/t%d%d" % ("-".join(ks), tips[0], tips[1]),
                   "params": {"kind": "chain", "kinds": ks, "tips": list(tips), "variants": [0, 1, 2, 3], "naming": 0, "hashseed": len(ks) % 3}, "timeout": 600})
    # chains with fewer than two articulation points
    for ks, tips in ((["snp"], (False, False)), (["ins"], (False, False)), (["snp", "del"], (False, False)), (["tri"], (True, False)),
                     (["inv"], (False, True)), (["snp", "ins"], (False, False))):
        for seed in (0, 1, 2):
            hs.append({"id": "fewartic/%s/t%d%d/h%d" % ("-".join(ks), tips[0], tips[1], seed),
                       "params": {"kind": "chain", "kinds": ks, "tips": list(tips), "variants": [0, 1, 2, 3], "naming": 0, "hashseed": seed},
                       "timeout": 400})
    for order in (["chr1", "chr2"], ["chr2", "chr1"], ["chr2", "chr3", "chr1"], ["chr4", "chr1"], ["chr2", "chr4", "chr3"], ["chr5", "chr2"], ["chr1", "chr5", "chr4"], ["chr6", "chr2"]):
        for seed in (0, 1):
            hs.append({"id": "run/%s/h%d" % (",".join(order), seed), "params": {"kind": "run", "order": order, "hashseed": seed}, "timeout": 900})
    # the same through the real read_graph, from GFA text in several line orders (link lines before the segment lines they name)
    for k, order in enumerate((["chr1", "chr2"], ["chr2", "chr3", "chr1"], ["chr2", "chr4", "chr3"])):
        hs.append({"id": "runtext/%s" % ",".join(order), "params": {"kind": "run", "order": order, "hashseed": k % 2, "text": 1}, "timeout": 900})
    return hs


def text_lines(spec, so, variant, rot=0):
    """GFA text in a line order where link lines precede segment lines: 1 = all L lines first, 2 = every link right before the
    segment line of its second end, 3 = S and L lines alternating from both lists"""
    lines = F.gfa_text(spec, so, with_seq=False)
    head = [l for l in lines if l[0] not in "SL"]
    sl = [l for l in lines if l[0] == "S"]
    sl = sl[3 * rot:] + sl[:3 * rot]
    ll = [l for l in lines if l[0] == "L"]
    if variant == 1:
        return head + ll + sl
    if variant == 2:
        out = list(head)
        used = set()
        for s_ in sl:
            nid = s_.split("\t")[1]
            for i, l in enumerate(ll):
                if i not in used and l.split("\t")[3] == nid:
                    used.add(i)
                    out.append(l)
            out.append(s_)
        return out + [l for i, l in enumerate(ll) if i not in used]
    out = list(head)
    for i in range(max(len(sl), len(ll))):
        if i < len(ll):
            out.append(ll[i])
        if i < len(sl):
            out.append(sl[i])
    return out


def make_spec(kinds, tips, naming, chrom="chr1", spec=None, name_pos=0):
    spec = spec or F.Spec()
    spec.name_pos = name_pos
    build = F.build_chain(spec, chrom, kinds, tip_start=tips[0], tip_end=tips[1], naming=naming)
    return spec


def build(params):
    if params["kind"] == "chain":
        spec = make_spec(params["kinds"], params["tips"], params["naming"], name_pos=params.get("name_pos", 0))
        nref = F.n_refs(spec, "chr1")
        args = [("ln%d" % i, "int") for i in range(nref)] + [("so0", "int"), ("bo0", "int")]
        pre = [" and ".join("ln%d >= 1" % i for i in range(nref)), "so0 >= 0 and bo0 >= 0"]

        def case(*a):
            O = F.M["O"]
            lens = a[:nref]
            so0, bo0 = a[nref], a[nref + 1]
            so = F.so_layout(spec, "chr1", lens, so0)
            results = []
            for vi, v in enumerate(params["variants"]):
                ids, links = F.orderings(spec, v)
                g = F.direct_graph(spec, so, ids, links, stale=(vi % 2 == 1))
                comp = set(g.nodes.keys())
                res = O.decompose_and_order(g, comp, "chr1", bo0)
                scaffold, inside, node_order, bo_end, nb = res
                if scaffold is None:
                    return "a linear bubble chain was reported as not orderable and skipped (line order variant %d)" % v
                r = F.check_order(spec, "chr1", node_order, bo0, bo_end, scaffold)
                if r:
                    return r + " (line order variant %d)" % v
                results.append((node_order, bo_end))
            first, e0 = results[0]
            for other, e1 in results[1:]:
                if not (e0 == e1):
                    return "running BO counter depends on the line order"
                for n in spec.order:
                    if not (first[n][0] == other[n][0] and first[n][1] == other[n][1]):
                        return "BO/NO of %s depends on the order of the S/L lines or on stale tags" % n
            return None

        return Harness(args, pre, case, fuel=500)
    order = params["order"]
    kinds = {"chr1": ["snp", "del"], "chr2": ["inv"], "chr3": ["ins", "two"]}
    spec = F.Spec()
    for c in ("chr1", "chr2", "chr3"):
        F.build_chain(spec, c, kinds[c], tip_start=(c != "chr2"), tip_end=True, naming=0)
    F.build_chain(spec, "chr4", [], tip_start=False, tip_end=False, naming=0)  # a single segment
    F.build_chain(spec, "chr5", ["snp"], tip_start=False, tip_end=False, naming=0)  # the whole chromosome is one bubble
    F.build_chain(spec, "chr6", ["snp", "ref", "inv"], tip_start=True, tip_end=True, naming=0)  # two scaffold nodes next to each other
    ALLC = ("chr1", "chr2", "chr3", "chr4", "chr5", "chr6")
    nrefs = {c: F.n_refs(spec, c) for c in ALLC}
    args = []
    pre = []
    for c in ALLC:
        for i in range(nrefs[c]):
            args.append(("l%s_%d" % (c[-1], i), "int"))
            pre.append("l%s_%d >= 1" % (c[-1], i))
    if params.get("text"):
        # segment lengths are concrete here (they are symbolic in the run/ harnesses); the solver chooses the line order and a rotation
        # of the S lines
        pre = ["%s == %d" % (n, 1 + i % 4) for i, (n, _) in enumerate(args)]
        args += [("lo", "int"), ("rot", "int")]
        pre.append("1 <= lo <= 3 and 0 <= rot <= 8")
    nlen = sum(nrefs.values())

    def case(*a):
        O = F.M["O"]
        e = stubs.env()
        if params.get("text"):
            lo_sel = 1 if a[nlen] == 1 else (2 if a[nlen] == 2 else 3)
            rot_sel = 0
            for r_ in range(9):
                if a[nlen + 1] == r_:
                    rot_sel = r_
            a = [1 + i % 4 for i in range(nlen)]
        so = {}
        pos = 0
        for c in ALLC:
            so.update(F.so_layout(spec, c, a[pos:pos + nrefs[c]], 0))
            pos += nrefs[c]
        text = params.get("text")
        if text:
            e.files["in.gfa"] = stubs.MFile("text", text_lines(spec, so, lo_sel, rot_sel), None)
        else:
            g = F.direct_graph(spec, so)
            e.graphs["in.gfa"] = lambda low: g
        O.run_order_gfa("in.gfa", "out", False, chromosome_order=",".join(order), with_sequence=False)
        if text:
            # the graph object is internal to the command: read the tags from the file it wrote
            class _N:
                def __init__(self):
                    self.tags = {}

            class _G:
                nodes = {}

            g = _G()
            g.nodes = {}
            fc = e.files.get("out/in-complete.gfa")
            for l in (fc.lines if fc is not None else []):
                if l.startswith("S"):
                    fs = l.rstrip("\n").split("\t")
                    nd = _N()
                    for t in fs[3:]:
                        k = t.split(":")
                        if k[0] in ("BO", "NO"):
                            nd.tags[k[0]] = ("i", k[2])
                    g.nodes[fs[1]] = nd
            for c in order:
                for n in spec.chroms[c]:
                    if n not in g.nodes or "BO" not in g.nodes[n].tags or "NO" not in g.nodes[n].tags:
                        return "segment %s of %s is missing from the output or has no BO/NO" % (n, c)
            for c in ALLC:
                if c not in order:
                    for n in spec.chroms[c]:
                        g.nodes.setdefault(n, _N())
        lo = 0
        prev_max = None
        for c in order:
            no = {n: (rt.sym_int(g.nodes[n].tags["BO"][1]), rt.sym_int(g.nodes[n].tags["NO"][1])) for n in spec.chroms[c]}
            bos = [no[n][0] for n in spec.chroms[c]]
            mx = bos[0]
            mn = bos[0]
            for b in bos:
                mx = b if b > mx else mx
                mn = b if b < mn else mn
            if prev_max is not None and not (mn > prev_max):
                return "BO range of %s overlaps or precedes the range of the chromosome before it in --chromosome_order" % c
            oc = F.chain_elements(spec, c)
            scaffold = [n for n in spec.chroms[c] if no[n][1] == 0]
            r = F.check_order(spec, c, no, mn, mx + 1, oc[1] if oc else scaffold)
            if r:
                return "%s: %s" % (c, r)
            if set(scaffold) != set(oc[1]):
                return "%s: nodes with NO 0 are not the articulation points" % c
            prev_max = mx
        for c in ALLC:
            if c not in order:
                if any("BO" in g.nodes[n].tags for n in spec.chroms[c]):
                    return "chromosome %s was not requested but got tags" % c
        # the complete GFA carries the same tags, S lines in (BO, NO) order
        f = e.files.get("out/in-complete.gfa")
        if f is None:
            return "no complete GFA written"
        last = None
        for l in f.lines:
            if not l.startswith("S"):
                continue
            fs = l.rstrip("\n").split("\t")
            bo = no_ = None
            for t in fs[3:]:
                if t.startswith("BO:i:"):
                    bo = rt.sym_int(t.split(":")[2])
                if t.startswith("NO:i:"):
                    no_ = rt.sym_int(t.split(":")[2])
            if bo is None or no_ is None:
                return "S line without BO/NO in the complete GFA"
            nid = fs[1]
            if not (rt.sym_int(g.nodes[nid].tags["BO"][1]) == bo):
                return "BO in the file differs from the graph"
            if last is not None and not (last <= (bo, no_)):
                return "S lines are not in (BO, NO) order"
            last = (bo, no_)
        return None

    return Harness(args, pre, case, fuel=800)


# ------------------------------------------------------------------------------------------


def replay(params, model, wd):
    import gaftools.cli.order_gfa as O

    a = model["args"]
    if params["kind"] == "chain":
        spec = make_spec(params["kinds"], params["tips"], params["naming"], name_pos=params.get("name_pos", 0))
        nref = F.n_refs(spec, "chr1")
        lens = a[:nref]
        so0 = a[nref]
        so = F.so_layout(spec, "chr1", lens, so0)
        results = []
        files = {}
        for vi, v in enumerate(params["variants"]):
            ids, links = F.orderings(spec, v)
            lines = F.gfa_text(spec, so, ids, links, stale=(vi % 2 == 1), with_seq=False)
            p = os.path.join(wd, "in%d.gfa" % v)
            open(p, "w").write("".join(lines))
            od = os.path.join(wd, "out%d" % v)
            err = None
            try:
                O.run_order_gfa(p, od, True, chromosome_order="chr1", with_sequence=False)
            except BaseException as e:  # noqa
                err = "%s: %s" % (type(e).__name__, e)
            of = os.path.join(od, "in%d-chr1.gfa" % v)
            files["variant%d" % v] = lines
            if err:
                return {"reproduced": True, "key": "C06:exception:" + err.split(":")[0], "what": "order_gfa raised %s (line order variant %d)" % (err, v), "files": files}
            if not os.path.exists(of):
                oc = F.chain_elements(spec, "chr1")
                nart = len(oc[1]) if oc else -1
                return {"reproduced": True, "key": "C06:skipped:artic%d" % nart, "what": "linear chain %r skipped (articulation points: %d, line order variant %d)" % (
                    params["kinds"], nart, v), "files": files}
            segs, links_, kinds_ = F.parse_gfa(open(of).read().splitlines())
            no = {n: (int(F.tagval(t, "BO")), int(F.tagval(t, "NO"))) for n, (s, t) in segs.items()}
            scaffold = [n for n in no if no[n][1] == 0]
            oc = F.chain_elements(spec, "chr1")
            mx = max(b for b, _ in no.values())
            r = F.check_order(spec, "chr1", no, 0, mx + 1, oc[1] if len(spec.order) > 1 else scaffold)
            if r is None and set(scaffold) != set(oc[1]) and len(spec.order) > 1:
                r = "nodes with NO 0 are not the articulation points"
            if r:
                nart = len(oc[1])
                return {"reproduced": True, "key": "C06:tags:artic%s:%s" % (nart if nart < 2 else "2+", "direction" if "increase" in r else "other"),
                        "what": "%s (line order variant %d, tags %r)" % (r, v, no), "files": files}
            results.append(no)
        for other in results[1:]:
            if other != results[0]:
                oc = F.chain_elements(spec, "chr1")
                return {"reproduced": True, "key": "C06:order-dependent:artic%d" % len(oc[1]), "what": "tags differ between line orders: %r vs %r" % (results[0], other),
                        "files": files}
        # the counter handed back for the next chromosome is not visible in a single-chromosome run: ask the function itself
        import gaftools.gfa as G

        g = G.GFA(os.path.join(wd, "in%d.gfa" % params["variants"][0]))
        bo0 = a[nref + 1]
        res = O.decompose_and_order(g, set(g.nodes.keys()), "chr1", bo0)
        if res[2] is not None:
            top = max(int(b) for b, _ in res[2].values())
            low = min(int(b) for b, _ in res[2].values())
            if not (low >= bo0 and res[3] > top):
                return {"reproduced": True, "key": "C06:counter", "what": "decompose_and_order(bo_start=%d) handed out BO %d..%d and returned %r as the next free value" % (
                    bo0, low, top, res[3]), "files": files}
        return {"reproduced": False, "detail": "real order_gfa output satisfies the chain rules for all line orders"}
    order = params["order"]
    kinds = {"chr1": ["snp", "del"], "chr2": ["inv"], "chr3": ["ins", "two"]}
    spec = F.Spec()
    for c in ("chr1", "chr2", "chr3"):
        F.build_chain(spec, c, kinds[c], tip_start=(c != "chr2"), tip_end=True, naming=0)
    F.build_chain(spec, "chr4", [], tip_start=False, tip_end=False, naming=0)
    F.build_chain(spec, "chr5", ["snp"], tip_start=False, tip_end=False, naming=0)
    F.build_chain(spec, "chr6", ["snp", "ref", "inv"], tip_start=True, tip_end=True, naming=0)
    so = {}
    pos = 0
    for c in ("chr1", "chr2", "chr3", "chr4", "chr5", "chr6"):
        n = F.n_refs(spec, c)
        so.update(F.so_layout(spec, c, a[pos:pos + n], 0))
        pos += n
    p = os.path.join(wd, "in.gfa")
    open(p, "w").write("".join(text_lines(spec, so, a[pos], a[pos + 1]) if params.get("text") else F.gfa_text(spec, so, with_seq=False)))
    od = os.path.join(wd, "out")
    try:
        O.run_order_gfa(p, od, False, chromosome_order=",".join(order), with_sequence=False)
    except BaseException as e:  # noqa
        return {"reproduced": True, "key": "C06:run:exception:" + type(e).__name__, "what": repr(e)}
    complete = open(os.path.join(od, "in-complete.gfa")).read().splitlines()
    segs, links_, kinds_ = F.parse_gfa(complete)
    lastkey = None
    for l in complete:
        if l.startswith("S"):
            f = l.split("\t")
            key = (int(F.tagval(f[3:], "BO")), int(F.tagval(f[3:], "NO")))
            if lastkey is not None and key < lastkey:
                return {"reproduced": True, "key": "C06:run:S-line-order", "what": "S lines of the complete GFA are not in (BO, NO) order: %r after %r" % (key, lastkey)}
            lastkey = key
    prev = None
    for c in order:
        no = {n: (int(F.tagval(segs[n][1], "BO")), int(F.tagval(segs[n][1], "NO"))) for n in spec.chroms[c] if n in segs}
        if len(no) != len(spec.chroms[c]):
            return {"reproduced": True, "key": "C06:run:missing-nodes", "what": "nodes of %s missing from the complete GFA" % c}
        mn, mx = min(b for b, _ in no.values()), max(b for b, _ in no.values())
        if prev is not None and mn <= prev:
            return {"reproduced": True, "key": "C06:run:ranges", "what": "BO range of %s starts at %d, previous chromosome ended at %d" % (c, mn, prev)}
        oc = F.chain_elements(spec, c)
        r = F.check_order(spec, c, no, mn, mx + 1, oc[1])
        if r:
            return {"reproduced": True, "key": "C06:run:tags", "what": "%s: %s" % (c, r)}
        prev = mx
    return {"reproduced": False, "detail": "multi-chromosome run satisfies the rules"}
