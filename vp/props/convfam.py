"""Shared machinery for C01 / C02: coordinate conversion through the real view.run."""
import os

from .. import rt, stubs
from ..engine import Harness

M = {}


def setup():
    import gaftools.gfa as G
    import gaftools.gaf as GA
    import gaftools.conversion as CV
    import gaftools.cli.view as V

    M.update(G=G, GA=GA, CV=CV, V=V)


# layout: segment id -> (contig, rank).  Offsets/lengths are symbolic.
SEGS = {
    "s0": ("chr1", 0), "s1": ("chr1", 0), "s2": ("chr1", 0),
    "a0": ("hap-A.1", 1), "a1": ("hap-A.1", 1),
    "b0": ("hap_B#2", 2),
    "c0": ("chr2", 0), "c1": ("chr2", 0),
}
ORDER = ["s0", "s1", "s2", "a0", "a1", "b0", "c0", "c1"]
LAYOUT_ARGS = ["l0", "l1", "l2", "ha", "a0", "g1", "a1", "hb", "b0", "c0", "c1"]
LAYOUT_PRE = ["l0 >= 1 and l1 >= 1 and l2 >= 1 and a0 >= 1 and a1 >= 1 and b0 >= 1 and c0 >= 1 and c1 >= 1",
              "ha >= 0 and g1 >= 0 and hb >= 0"]

CIG = "3S5=2N3X12I1P4D7M2H"
REV = "2H7M4D1P12I3X2N5=3S"
TAGS = [("tp:A:", "P"), ("NM:i:", "0"), ("cg:Z:", CIG), ("dv:f:", "0.0271"), ("zz:Z:", "end")]


def layout(L):
    l0, l1, l2, ha, a0, g1, a1, hb, b0, c0, c1 = L
    return {
        "s0": ("chr1", 0, l0, 0), "s1": ("chr1", l0, l1, 0), "s2": ("chr1", l0 + l1, l2, 0),
        "a0": ("hap-A.1", ha, a0, 1), "a1": ("hap-A.1", ha + a0 + g1, a1, 1),
        "b0": ("hap_B#2", hb, b0, 2),
        "c0": ("chr2", 0, c0, 0), "c1": ("chr2", c0, c1, 0),
    }


def mknode(nid, sn, so, ln, sr):
    n = M["G"].Node(nid)
    n.tags = {"LN": ("i", rt.mk([rt.Num(ln)])), "SN": ("Z", sn), "SO": ("i", rt.mk([rt.Num(so)])),
              "SR": ("i", str(sr))}
    return n


def build_graph(segs, order=None):
    g = M["G"].GFA()
    for nid in (order or ORDER):
        sn, so, ln, sr = segs[nid]
        g.nodes[nid] = mknode(nid, sn, so, ln, sr)
        if g.contigs[sn] is None:
            g.contigs[sn] = sr
        g.contig_to_nodes[sn].append(nid)
    # the links that make the walk(s) under analysis walks of the graph (the replay writes the same links)
    for (a, da, b, db) in sorted(WALK_LINKS[0]):
        g.add_edge(a, da, b, db, 0, [0])
    return g


WALK_LINKS = [set()]


def set_walk_links(walks):
    links = set()
    for walk in walks:
        for (o1, n1), (o2, n2) in zip(walk, walk[1:]):
            links.add((n1, "+" if o1 == ">" else "-", n2, "+" if o2 == ">" else "-"))
    WALK_LINKS[0] = links


def toks(path):
    """tokenise a (FieldStr) path into (orient|None, name) pairs"""
    segs = rt.segs_of(path)
    res = []
    cur = []
    orient = None
    started = False
    for sg in segs:
        if isinstance(sg, rt.Num):
            cur.append(sg)
            started = True
            continue
        buf = ""
        for ch in sg:
            if ch in "<>":
                cur.append(buf)
                buf = ""
                if started:
                    res.append((orient, rt.mk(cur)))
                cur = []
                orient = ch
                started = True
            else:
                buf += ch
                started = True
        cur.append(buf)
    res.append((orient, rt.mk(cur)))
    return res


def base_at(steps, x):
    """steps: (contig, s, e, orient) in path order; x: path coordinate -> (contig, pos, orient)"""
    cum = 0
    for (c, s, e, o) in steps:
        ln = e - s
        if cum <= x and x < cum + ln:
            off = x - cum
            return (c, s + off, ">") if o == ">" else (c, e - 1 - off, "<")
        cum = cum + ln
    return None


def total_of(steps):
    t = 0
    for (c, s, e, o) in steps:
        t = t + (e - s)
    return t


def steps_stable(pathfield):
    tk = toks(pathfield)
    if len(tk) == 1 and tk[0][0] is None:
        return None, tk[0][1]
    steps = []
    for o, t in tk:
        c, rng = t.split(":")
        a, b = rng.split("-")
        steps.append((c, rt.sym_int(a), rt.sym_int(b), o))
    return steps, None


def mk_alignment(name, cols, strand, path, plen, ps, pe, cigar, tags):
    """cols = (qlen, qs, qe, matches, blen, mapq)"""
    GA = M["GA"]
    qlen, qs, qe, nm, bl, mq = cols
    return GA.Alignment(name, qlen, qs, qe, strand, path, plen, ps, pe, nm, bl, mq, True, cigar,
                        tags={kk: vv for kk, vv in tags})


GRAPH_ORDER = [None]  # S-line order of the graph handed to view.run (None = ORDER)


def run_view(segs, recs, fmt, order=None):
    order = order or GRAPH_ORDER[0]
    """drive the real view.run over stub reader + stub graph; returns output lines"""
    V = M["V"]
    e = stubs.env()
    e.graphs["g.gfa"] = lambda low, segs=segs: build_graph(segs, order)
    e.gaf_records["in.gaf"] = [(i, (lambda r=r: r())) for i, r in enumerate(recs)]
    if "o.gaf" in e.files:
        del e.files["o.gaf"]
    V.run("in.gaf", gfa="g.gfa", output="o.gaf", format=fmt)
    return list(e.files["o.gaf"].lines)


def parse_tags(fields):
    out = []
    for x in fields:
        if isinstance(x, str):
            out.append((x[:5], x[5:]))
        else:
            out.append((None, x))
    return out


def convert_chain(walk, L, ps, pe, k, cols, which):
    """u -> stable -> unstable' through view.run; assertions for C01 or C02"""
    segs = layout(L)
    set_walk_links([walk])
    path = "".join(o + n for o, n in walk)
    usteps = [(segs[n][0], segs[n][1], segs[n][1] + segs[n][2], o) for o, n in walk]
    total = total_of(usteps)
    if not (pe <= total and k < pe - ps):
        return "SKIP"
    mk_u = lambda: mk_alignment("r", cols, "+", path, total, ps, pe, CIG, TAGS)
    want = base_at(usteps, ps + k)
    clen = {"chr1": L[0] + L[1] + L[2], "chr2": L[9] + L[10]}
    out = run_view(segs, [mk_u], "stable")
    if len(out) != 1:
        return "stable conversion wrote %d lines for 1 record" % len(out)
    s = out[0].rstrip("\n").split("\t")
    if len(s) != 12 + len(TAGS):
        return "stable record has %d fields" % len(s)
    sps = rt.sym_int(s[7])
    spe = rt.sym_int(s[8])
    spl = rt.sym_int(s[6])
    ssteps, bare = steps_stable(s[5])
    strand = s[4]
    if strand not in ("+", "-"):
        return "bad strand"
    cg = [v for kk, v in parse_tags(s[12:]) if kk == "cg:Z:"]
    if which == "C01":
        if spe - sps != pe - ps:
            return "aligned length changed (to stable)"
        if bare is not None:
            if bare not in clen:
                return "bare contig name that is not a reference contig"
            if spl != clen[bare]:
                return "path length of bare contig is not the contig length"
            got = (bare, sps + k, ">") if strand == "+" else (bare, spe - 1 - k, "<")
        else:
            if strand != "+":
                return "split stable path with '-' strand"
            if spl != total_of(ssteps):
                return "stable path length is not the total of its intervals"
            got = base_at(ssteps, sps + k)
        if got != want:
            return "stable record designates a different base"
        if cg != [REV if strand == "-" else CIG]:
            return "CIGAR not reversed exactly when the strand flipped (to stable)"
    else:
        r = untouched(s, cols, "to stable")
        if r:
            return r
    # ---- back to unstable -----------------------------------------------------------------
    stags = [(kk, v) for kk, v in parse_tags(s[12:])]
    if any(kk is None for kk, v in stags):
        return "tag field with symbolic content"
    scig = cg[0] if cg else ""
    mk_s = lambda: mk_alignment("r", cols, strand, s[5], spl, sps, spe, scig, stags)
    out2 = run_view(segs, [mk_s], "unstable")
    if len(out2) != 1:
        return "unstable conversion wrote %d lines for 1 record" % len(out2)
    u2 = out2[0].rstrip("\n").split("\t")
    if len(u2) != 12 + len(TAGS):
        return "unstable record has %d fields" % len(u2)
    ups = rt.sym_int(u2[7])
    upe = rt.sym_int(u2[8])
    upl = rt.sym_int(u2[6])
    u2steps = []
    for o, t in toks(u2[5]):
        if not isinstance(t, str) or t not in segs or o is None:
            return "unstable path contains something that is not an oriented node"
        sn, so, ln, sr = segs[t]
        u2steps.append((sn, so, so + ln, o))
    cg2 = [v for kk, v in parse_tags(u2[12:]) if kk == "cg:Z:"]
    if which == "C01":
        if u2[4] != "+":
            return "unstable record with '-' strand"
        if upe - ups != pe - ps:
            return "aligned length changed (to unstable)"
        if upl != total_of(u2steps):
            return "unstable path length is not the total node length"
        if base_at(u2steps, ups + k) != want:
            return "unstable record designates a different base"
        if cg2 != [CIG]:
            return "CIGAR not reversed exactly when the strand flipped (to unstable)"
        return None
    r = untouched(u2, cols, "to unstable")
    if r:
        return r
    first = segs[walk[0][1]][2]
    last = segs[walk[-1][1]][2]
    if ps < first and pe > total - last:
        # canonical: must reproduce exactly
        if not (u2[5] == path):
            return "round trip changed the path"
        if not (upl == total and ups == ps and upe == pe and u2[4] == "+"):
            return "round trip changed path length/start/end/strand"
        if cg2 != [CIG]:
            return "round trip changed the CIGAR"
        # stable canonical form reproduces itself
        u2tags = [(kk, v) for kk, v in parse_tags(u2[12:])]
        mk_u2 = lambda: mk_alignment("r", cols, "+", u2[5], upl, ups, upe, cg2[0], u2tags)
        out3 = run_view(segs, [mk_u2], "stable")
        if len(out3) != 1:
            return "second stable conversion wrote %d lines" % len(out3)
        s2 = out3[0].rstrip("\n").split("\t")
        if len(s2) != len(s):
            return "stable round trip changed the number of fields"
        for a, b in zip(s, s2):
            if not (a == b):
                return "stable -> unstable -> stable changed a field"
    return None


def untouched(f, cols, where):
    qlen, qs, qe, nm, bl, mq = cols
    if f[0] != "r":
        return "read name changed (%s)" % where
    for idx, v, nmx in ((1, qlen, "read length"), (2, qs, "read start"), (3, qe, "read end"), (9, nm, "matches"),
                        (10, bl, "block length"), (11, mq, "mapping quality")):
        if not (rt.sym_int(f[idx]) == v):
            return "%s changed (%s)" % (nmx, where)
    tg = parse_tags(f[12:])
    if [kk for kk, v in tg] != [kk for kk, v in TAGS]:
        return "optional fields lost/reordered (%s)" % where
    for (kk, v), (k0, v0) in zip(tg, TAGS):
        if kk != "cg:Z:" and v != v0:
            return "optional field %s changed (%s)" % (kk, where)
    return None


def stable_direct(sintervals, bare, strand, L, ps, pe, k):
    """stable input (not produced by gaftools) -> unstable; locus assertion only (C01).
    sintervals: list of (orient, contig, first seg index, last seg index) runs of whole segments"""
    segs = layout(L)
    set_walk_links([])
    clen = {"chr1": L[0] + L[1] + L[2], "chr2": L[9] + L[10]}
    bycontig = {}
    for nid in ORDER:
        bycontig.setdefault(segs[nid][0], []).append(nid)
    cols = (100, 0, 100, 5, 20, 60)
    if bare:
        contig = bare
        total = clen[contig]
        if not (pe <= total and k < pe - ps):
            return "SKIP"
        path = contig
        want = (contig, ps + k, ">") if strand == "+" else (contig, pe - 1 - k, "<")
    else:
        steps = []
        pieces = []
        for o, contig, i, j in sintervals:
            ids = bycontig[contig][i:j + 1]
            a = segs[ids[0]][1]
            b = segs[ids[-1]][1] + segs[ids[-1]][2]
            for x, y in zip(ids, ids[1:]):
                if not (segs[x][1] + segs[x][2] == segs[y][1]):
                    return "SKIP"  # run of segments must be contiguous on the contig
            steps.append((contig, a, b, o))
            pieces.append(rt.vp_fmt_("%s%s:%d-%d", (o, contig, a, b)))
        total = total_of(steps)
        if not (pe <= total and k < pe - ps):
            return "SKIP"
        path = pieces[0]
        for p in pieces[1:]:
            path = path + p
        want = base_at(steps, ps + k)
    mk_s = lambda: mk_alignment("r", cols, strand, path, total, ps, pe, CIG, TAGS)
    out = run_view(segs, [mk_s], "unstable")
    if len(out) != 1:
        return "unstable conversion wrote %d lines for 1 record" % len(out)
    u = out[0].rstrip("\n").split("\t")
    if u[4] != "+":
        return "unstable record with '-' strand"
    ups, upe, upl = rt.sym_int(u[7]), rt.sym_int(u[8]), rt.sym_int(u[6])
    usteps = []
    for o, t in toks(u[5]):
        if not isinstance(t, str) or t not in segs or o is None:
            return "unstable path contains something that is not an oriented node"
        sn, so, ln, sr = segs[t]
        usteps.append((sn, so, so + ln, o))
    if upe - ups != pe - ps:
        return "aligned length changed (to unstable)"
    if upl != total_of(usteps):
        return "unstable path length is not the total node length"
    if base_at(usteps, ups + k) != want:
        return "unstable record designates a different base"
    cg = [v for kk, v in parse_tags(u[12:]) if kk == "cg:Z:"]
    if cg != [REV if strand == "-" else CIG]:
        return "CIGAR not reversed exactly when the strand flipped (to unstable)"
    return None


# ------------------------------------------------------------------------------------------
# replay on the real code with real files


def write_rgfa(wd, segs, walks, name="g.gfa", order=None):
    """concrete rGFA with sequences; links make every walk a walk"""
    import random

    rnd = random.Random(7)
    p = os.path.join(wd, name)
    seqs = {}
    with open(p, "w") as fh:
        for nid in (order or ORDER):
            sn, so, ln, sr = segs[nid]
            seqs[nid] = "".join(rnd.choice("ACGT") for _ in range(ln))
            fh.write("S\t%s\t%s\tLN:i:%d\tSN:Z:%s\tSO:i:%d\tSR:i:%d\n" % (nid, seqs[nid], ln, sn, so, sr))
        links = set()
        for walk in walks:
            for (o1, n1), (o2, n2) in zip(walk, walk[1:]):
                links.add((n1, "+" if o1 == ">" else "-", n2, "+" if o2 == ">" else "-"))
        for a, da, b, db in sorted(links):
            fh.write("L\t%s\t%s\t%s\t%s\t0M\n" % (a, da, b, db))
    return p, seqs


def revcomp(s):
    return s[::-1].translate(str.maketrans("ACGT", "TGCA"))


def contig_seqs(segs, seqs):
    """contig -> {position: base} from the segment sequences"""
    out = {}
    for nid, (sn, so, ln, sr) in segs.items():
        d = out.setdefault(sn, {})
        for i, ch in enumerate(seqs[nid]):
            d[so + i] = ch
    return out

COMP = {"A": "T", "C": "G", "G": "C", "T": "A"}


def spell(fields, segs, seqs=None):
    """independent oracle: path[start:end] of a GAF record (stable or unstable) in read orientation, spelled as the list of
    (contig, position, strand) of its bases - exact, so two different loci can never look equal by coincidence of letters"""
    path = fields[5]
    strand = fields[4]
    ps, pe = int(fields[7]), int(fields[8])
    import re

    def rc(tokens):
        return [(c, i, "-" if o == "+" else "+") for (c, i, o) in reversed(tokens)]

    tk = re.findall(r"([<>])([^<>]+)", path)
    if not tk:
        s = [(path, i, "+") for i in range(ps, pe)]
        return s if strand == "+" else rc(s)
    whole = []
    for o, t in tk:
        if ":" in t:
            c, rng = t.split(":")
            a, b = rng.split("-")
            piece = [(c, i, "+") for i in range(int(a), int(b))]
        else:
            sn, so, ln, sr = segs[t]
            piece = [(sn, i, "+") for i in range(so, so + ln)]
        whole += piece if o == ">" else rc(piece)
    s = whole[ps:pe]
    return s if strand == "+" else rc(s)


def real_view(wd, gfa, lines, fmt, name):
    import gaftools.cli.view as V

    gaf = os.path.join(wd, name + ".in.gaf")
    with open(gaf, "w") as fh:
        fh.write("".join(l + "\n" for l in lines))
    out = os.path.join(wd, name + ".out.gaf")
    err = None
    try:
        V.run(gaf, gfa=gfa, output=out, format=fmt)
    except BaseException as e:  # noqa
        err = "%s: %s" % (type(e).__name__, e)
    import gc

    gc.collect()
    res = open(out).read().splitlines() if os.path.exists(out) else []
    return res, err
