"""C09 — sort emits every record once, unchanged, plus correct bo/sn/iv tags."""
from . import sortfam as F
from . import tokfam
from ..engine import Direct

ID = "C09"
setup = F.setup

META = {
    "level": "other",
    "functions": {"gaftools.cli.sort": ["sort", "process_alignment", "compare_gaf", "write_to_file", "run_sort"]},
    "explanation": "Bounded symbolic execution (CrossHair/z3) of the real sort.sort on a model file system: n records "
    "with symbolic path length/start/end, symbolic BO/NO tags on every node and symbolic reader/writer offset cookies; "
    "text and BGZF reader, text and BGZF writer.  Assertion: the written lines are a permutation of the input lines, "
    "each reproduced field by field and followed by exactly bo:i:<BO of anchor> sn:Z:<rank-0 contig|unknown> "
    "iv:i:<0|1>, with iv=1 iff scaffold nodes (NO=0, BO!=-1) occur in both orientations.",
    "bounds": {"quick": "n<=3 records, paths of <=3 steps over nodes s1,s2 (rank 0), x1 (rank 1), t1 (other chromosome)",
               "thorough": "adds further path menus and 3-record BGZF variants"},
    "out": ["n > 3 records", "trailing whitespace inside the last optional field (rstrip())", "real BGZF block structure"],
    "assumptions": ["model file system cookies (DESIGN 3.2): BGZF reader yields bytes, BGZF writer rejects str with TypeError",
                    "StageTimer/logger no-ops"],
}
META["explanation"] += '  sort2-second-graph-in-process: another build of the graph sorted first in the same execution.  tokens/cli/sort.py: the path tokenizer decided as a language by z3.'
META["explanation"] += '  The replay sorts the records twice: pure ASCII and with a comment field of multi-byte characters.'
META["explanation"] += '  Paths with a reversed middle node between two equally oriented ones are in the sort1 list.'
META["explanation"] += '  runsort/graph-from-text: run_sort with the tagged graph read by the real read_graph from text; the reference contig is called chr2:1000-2000.'


def harnesses(tier):
    hs = []
    one = [">s1", "<s1", ">x1", ">s1>x1", ">s1<s2", "<s2<x1<s1", ">s1<x1<s2", ">x1>s2", ">s1<x1>s2", "<s1>x1<s2", ">t1"]
    for p in one:
        hs.append({"id": "sort1/" + p, "params": {"kind": "sort", "paths": [p], "scaffold_ref": False}, "timeout": 200,
                   "twin": p == ">s1>x1"})
    for gi, go in ((True, False), (False, True), (True, True)):
        hs.append({"id": "sort1gz%d%d/>s1<x1" % (gi, go), "params": {"kind": "sort", "paths": [">s1<x1"], "gz_in": gi,
                                                                     "gz_out": go, "scaffold_ref": False}, "timeout": 200})
    two = [(">s1", ">x1"), (">s1>x1", "<x1<s1"), ("<s1", ">s2"), (">x1", ">x1")]
    for c in two:
        hs.append({"id": "sort2/" + "+".join(c), "params": {"kind": "sort", "paths": list(c)}, "timeout": 200})
    hs.append({"id": "sort2gz/>s1+>x1", "params": {"kind": "sort", "paths": [">s1", ">x1"], "gz_in": True, "gz_out": True},
               "timeout": 200})
    for gi in (False, True):
        hs.append({"id": "sort2-nonl/%s/>s1+>x1" % ("bgzf" if gi else "text"), "params": {"kind": "sort", "paths": [">s1", ">x1"], "gz_in": gi,
                                                                                 "no_final_newline": True}, "timeout": 200})
    hs.append({"id": "sort2-second-graph-in-process/>s1>x1+<s2", "params": {"kind": "sort", "paths": [">s1>x1", "<s2"], "prior": True}, "timeout": 300})
    three = [(">s1", ">x1", "<s1")]
    if tier == "thorough":
        three += [(">s1>x1", "<s2", ">x1"), (">s1", ">s1", ">s1"), (">x1", ">s1<s2", "<s2<x1<s1")]
        for p in ("<x1<s1", ">s1>x1>s2", "<s1>s2", "<t1"):
            hs.append({"id": "sort1/" + p, "params": {"kind": "sort", "paths": [p], "scaffold_ref": False}, "timeout": 300})
    for c in three:
        hs.append({"id": "sort3/" + "+".join(c), "params": {"kind": "sort", "paths": list(c)},
                   "timeout": 300 if tier == "quick" else 900})
    hs.append(tokfam.harness("C09", "gaftools/cli/sort.py"))
    hs.append({"id": "runsort/graph-from-text", "params": {"kind": "text"}, "timeout": 300})
    return hs


def build_text(params):
    """run_sort end to end with the tagged graph read by the real read_graph from text: the reference contig has a region-style name
    with colons, one segment carries an annotation with blanks"""
    from ..engine import Harness
    from .. import stubs

    contig = F.NODES["t1"][0]

    def case(bsel, c0, c1, w0, w1):
        S = F.M["S"]
        e = stubs.env()
        bo = 0 if bsel == 0 else (5 if bsel == 1 else 300)
        e.files["g.gfa"] = stubs.MFile("text", [
            "H\tVN:Z:1.0\n",
            "S\tt1\t*\tLN:i:500\tSN:Z:%s\tSO:i:0\tSR:i:0\tDS:Z:primary assembly, patch 2\tBO:i:%d\tNO:i:0\n" % (contig, bo),
            "S\tx9\t*\tLN:i:5\tSN:Z:hapX\tSO:i:0\tSR:i:1\tBO:i:7\tNO:i:1\n", "L\tt1\t+\tx9\t+\t0M\n"], None)
        lines = F.build_lines([">t1"], [(500, 1, 2)])
        e.files["in.gaf"] = stubs.MFile("text", lines, [c0, c1])
        e.writer_cookies["o.gaf"] = [w0, w1]
        S.run_sort("g.gfa", "in.gaf", outgaf="o.gaf")
        out = [str(l).rstrip("\n") for l in e.files["o.gaf"].lines]
        want = str(lines[0]).rstrip("\n") + "\tbo:i:%d\tsn:Z:%s\tiv:i:0" % (bo, contig)
        if out != [want]:
            return "run_sort wrote %r, expected %r" % (out, [want])
        return None

    return Harness([("bsel", "int"), ("c0", "int"), ("c1", "int"), ("w0", "int"), ("w1", "int")], ["0 <= bsel <= 2 and 0 <= c0 < c1 and 0 <= w0 < w1"], case)


def build(params):
    if params.get("kind") == "text":
        return build_text(params)
    if params.get("kind") == "tokens":
        return Direct(lambda: tokfam.run(params))
    return F.build_sort(params, "C09")


def concrete_content_violation(paths, tags, nums, lines, outl):
    n = len(paths)
    if len(outl) != n:
        return "count", "output has %d lines for %d records" % (len(outl), n)
    seen = set()
    for l in outl:
        f = l.split("\t")
        i = int(f[0][1:])
        if i in seen:
            return "dup", "record r%d emitted twice" % i
        seen.add(i)
        bo, no, st, inv, sn = F.expected(paths[i], tags, *nums[i])
        want = lines_by_name(lines)[i] + "\tbo:i:%d\tsn:Z:%s\tiv:i:%d" % (bo, sn, inv)
        if l != want:
            wf, gf = want.split("\t"), f
            which = "fields"
            for a, b in zip(gf[-3:], wf[-3:]):
                if a != b:
                    which = b[:2]
                    break
            if gf[:-3] != wf[:-3]:
                which = "columns"
            return which, "record r%d written as %r, expected %r" % (i, l, want)
    return None


def lines_by_name(lines):
    return {int(l.split("\t")[0][1:]): l for l in lines}


def replay(params, model, wd):
    if params.get("kind") == "tokens":
        return tokfam.replay(params, model, wd)
    if params.get("kind") == "text":
        bo = [0, 5, 300][model["args"][0]]
        tags, paths, nums = {"t1": (bo, 0)}, [">t1"], [(500, 1, 2)]
        lines, outl, offs, idx, err = F.real_sort(wd, paths, tags, nums)
        if err:
            return {"reproduced": True, "key": "C09:text:exception", "what": "run_sort raised " + err}
        v = concrete_content_violation(paths, tags, nums, lines, outl)
        if v:
            return {"reproduced": True, "key": "C09:text:" + v[0], "what": v[1], "files": {"gaf": lines, "output": outl}}
        return {"reproduced": False, "detail": "real run_sort output matches"}
    used, tags, nums = F.decode_sort(params, model)
    paths = params["paths"]
    import os

    # the same records twice: pure ASCII, and with a comment field holding multi-byte characters (offsets in a file are bytes)
    for utf8 in (False, True):
        d = os.path.join(wd, "utf8" if utf8 else "ascii")
        os.makedirs(d)
        lines, outl, offs, idx, err = F.real_sort(d, paths, tags, nums, params.get("gz_in"), params.get("gz_out"),
                                                  no_final_newline=bool(params.get("no_final_newline")), prior=bool(params.get("prior")), utf8=utf8)
        if err and "KeyError: 'unknown'" not in err:
            return {"reproduced": True, "key": "C09:sort:exception:" + err.split(":")[0], "what": "run_sort raised " + err}
        v = concrete_content_violation(paths, tags, nums, lines, outl)
        if v:
            return {"reproduced": True, "key": "C09:content:" + v[0] + (":multibyte" if utf8 else ""), "what": v[1],
                    "files": {"gaf": lines, "graph_tags": tags, "output": outl}}
    return {"reproduced": False, "detail": "real run_sort output matches (ASCII and multi-byte records)", "output": outl}
