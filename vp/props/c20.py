"""C20 — phase annotates every record without altering it."""
import itertools
import os
import re

from .. import rt, stubs
from ..engine import Harness

ID = "C20"
M = {}

META = {
    "level": "other",
    "functions": {"gaftools.cli.phase": ["add_phase_info", "run"]},
    "explanation": "Bounded symbolic execution (CrossHair/z3) of the real phase.add_phase_info on the model file "
    "system: n<=3 records (both strands, stable and unstable paths, tag menus with and without cg) whose nine numeric "
    "columns are symbolic, and a haplotag TSV in which each read is H1, H2, 'none', absent, or listed twice, with a "
    "symbolic phase-set number.  Oracle: exactly n output lines; line i carries the 12 input columns of record i "
    "(strand included), the input's optional fields in order, plus exactly one ps:Z: and one ht:Z: field holding "
    "<contig>-<phase set> / <haplotype> of the first TSV entry of the read, or 'none'; no empty or malformed field "
    "(every field TAG:TYPE:VALUE per utils.tag_regex).",
    "bounds": {"quick": "n<=2 records x TSV status menu (5) x strand x path form; 3-record stream",
               "thorough": "all 25 status pairs for n=2 on both strands"},
    "out": ["n > 3", "TSV lines with fewer than 4 columns", "read names outside the parsed/* menus (blank-separated comments, '@' prefix, six special characters)"],
    "assumptions": ["n1/n2/n3 harnesses: GAF reader stub yields Alignment objects; parsed/* harnesses go through the real reader", "open() model file system; output inspected "
                    "as written (file need not be closed)"],
}
META["explanation"] += '  parsed/*: the third read name holds a solver-chosen character (none, 0x1f, NBSP, VT, |, %) and the TSV also lists the name cut at that character with another haplotype.'
META["explanation"] += "  One read name starts with '@'; parsed/text/no-final-newline."
META["explanation"] += "  One parsed record carries an optional field with '%%', '%s' and a trailing '%'."

STATUS = ["H1", "H2", "none", "absent", "twice"]
TAGMENU = [
    [("tp:A:", "P"), ("cg:Z:", "10=")],
    [("NM:i:", "0"), ("cg:Z:", "4=1X5="), ("dv:f:", "0.0271")],
    [("tp:A:", "S")],
    [],
]
PATHS = {"u": ">s1<s2", "s": ">chr1:10-20<hapA:5-9", "b": "chr1"}
TAG_RE = re.compile(r"^[A-Za-z][A-Za-z0-9][:][AifZHB][:][ !-~]*$")


def setup():
    import gaftools.cli.phase as P
    import gaftools.gaf as GA

    M.update(P=P, GA=GA)


def harnesses(tier):
    hs = []
    i = 0
    for st in STATUS:
        for strand in "+-":
            for pk in ("u", "s", "b"):
                hs.append({"id": "n1/%s/%s/%s" % (st, strand, pk),
                           "params": {"status": [st], "strand": [strand], "path": [pk], "tags": [i % len(TAGMENU)]}, "timeout": 120,
                           "twin": i == 0})
                i += 1
    pairs = list(itertools.product(STATUS, repeat=2))
    if tier == "quick":
        pairs = [p for j, p in enumerate(pairs) if j % 3 == 0]
    for j, (a, b) in enumerate(pairs):
        for same in ((False, True) if tier == "thorough" else (j % 2 == 0,)):
            hs.append({"id": "n2/%s-%s/%s" % (a, b, "same" if same else "diff"),
                       "params": {"status": [a, b], "strand": ["+", "-"] if j % 2 else ["-", "+"], "path": ["u", "s"], "tags": [j % 4, (j + 1) % 4],
                                  "same_read": same}, "timeout": 200})
    for a, b in (("H1", "H1"), ("H2", "twice"), ("H1", "H2"), ("twice", "twice")):
        hs.append({"id": "n2sel/%s-%s" % (a, b), "params": {"status": [a, b], "strand": ["+", "-"], "path": ["u", "s"], "tags": [0, 1], "pssel": True},
                   "timeout": 300})
    hs.append({"id": "n3sel/H1-H1-H2", "params": {"status": ["H1", "H1", "H2"], "strand": ["+", "-", "+"], "path": ["u", "s", "b"], "tags": [0, 1, 2], "pssel": True},
               "timeout": 600})
    hs.append({"id": "n3/H1-absent-none", "params": {"status": ["H1", "absent", "none"], "strand": ["-", "+", "-"], "path": ["u", "b", "s"],
                                                      "tags": [0, 1, 3]}, "timeout": 300})
    hs.append({"id": "n0/empty", "params": {"status": [], "strand": [], "path": [], "tags": []}, "timeout": 60})
    for gz in (0, 1):
        hs.append({"id": "parsed/%s" % ("bgzf" if gz else "text"), "params": {"kind": "parsed", "gz": gz, "status": ["x", "x", "x"]}, "timeout": 300})
    hs.append({"id": "parsed/text/no-final-newline", "params": {"kind": "parsed", "gz": 0, "status": ["x", "x", "x"], "nonl": True, "cmax": 1}, "timeout": 300})
    return hs


PARSED_LINES = [
    "@p0\t50\t0\t10\t-\t>s1<s2\t25\t2\t12\t9\t10\t60\ttp:A:S\tNM:i:-1\tcg:Z:5=1X4=\tco:Z:ident=97%%;cov=100%s %d%\n",
    "p1 trailing words\t50\t0\t10\t+\tchr1\t30\t0\t10\t10\t10\t0\ttp:A:P\tzd:Z:a b:c\n",
    "p2\t50\t3\t13\t+\t<chr1:10-25\t15\t1\t11\t8\t10\t60\ttp:A:I\tcg:Z:4=2D4=\tdv:f:-.5e-3\n",
]


NAMECH = ["", chr(0x1f), chr(0xa0), chr(0x0b), "|", "%"]


def parsed_setup(sel, ch):
    """lines, names as they must come out, TSV lines and expected phase status of the three parsed records.  The third read name holds a
    character that Python counts as white space but that is not a blank: the documented cut is at the first blank only.  The TSV also lists
    the read whose name is the part before that character, with another haplotype."""
    st = [["H1", "none", "absent"][x] for x in sel]
    lines = list(PARSED_LINES)
    n2 = "p2" + ch + ("x" if ch else "")
    lines[2] = n2 + lines[2][2:]
    names = ["@p0", "p1", n2]  # a name copied from a FASTQ header keeps its '@'
    tsv = []
    if ch:
        tsv.append("p2\tH2\t5\tchrX\n")
    for nm, x in zip(names, st):
        if x == "H1":
            tsv.append("%s\tH1\t77\tchr9\n" % nm)
        elif x == "none":
            tsv.append("%s\tnone\tnone\tchr9\n" % nm)
    return lines, names, tsv, st


def parsed_check(out, lines, names, st):
    if len(out) != 3:
        return "%d output lines for 3 records" % len(out)
    for i in range(3):
        fi = lines[i].rstrip("\n").split("\t")
        fo = out[i].split("\t")
        want12 = [names[i]] + fi[1:12]
        if fo[:12] != want12:
            return "record %d: mandatory columns %r, input %r" % (i, fo[:12], want12)
        rest = [x for x in fo[12:] if not x.startswith(("ps:Z:", "ht:Z:"))]
        if rest != fi[12:]:
            return "record %d: optional fields %r, input had %r" % (i, rest, fi[12:])
        ps = [x for x in fo[12:] if x.startswith("ps:Z:")]
        ht = [x for x in fo[12:] if x.startswith("ht:Z:")]
        if st[i] == "H1":
            if ps != ["ps:Z:chr9-77"] or ht != ["ht:Z:H1"]:
                return "record %d: phase tags %r %r" % (i, ps, ht)
        elif ps != ["ps:Z:none"] or ht != ["ht:Z:none"]:
            return "record %d: phase tags %r %r for an unphased/absent read" % (i, ps, ht)
    return None


def build_parsed(params):
    args = [("s0", "int"), ("s1", "int"), ("s2", "int"), ("c", "int")]
    pre = ["0 <= s0 <= 2 and 0 <= s1 <= 2 and 0 <= s2 <= 2 and 0 <= c <= %d" % params.get("cmax", len(NAMECH) - 1)]

    def case(s0, s1, s2, c):
        P = M["P"]
        e = stubs.env()
        sel = [0 if x == 0 else 1 if x == 1 else 2 for x in (s0, s1, s2)]
        ch = NAMECH[-1]
        for k, v in enumerate(NAMECH):
            if c == k:
                ch = v
        lines, names, tsv, st = parsed_setup(sel, ch)
        e.files["h.tsv"] = stubs.MFile("text", tsv, None)
        flines = lines[:-1] + [lines[-1].rstrip("\n")] if params.get("nonl") else lines
        e.files["in.gaf"] = stubs.MFile("bgzf" if params["gz"] else "text", flines, None)
        # an earlier call in the same process with another haplotag file must not influence this one
        e.files["h0.tsv"] = stubs.MFile("text", ["@p0\tH2\t5\tchrX\n", "p1\tH2\t5\tchrX\n", "%s\tH2\t5\tchrX\n" % names[2]], None)
        P.add_phase_info("in.gaf", "h0.tsv", "o0.gaf")
        P.add_phase_info("in.gaf", "h.tsv", "o.gaf")
        out = [str(l).rstrip("\n") for l in e.files["o.gaf"].lines]
        return parsed_check(out, lines, names, st)

    return Harness(args, pre, case, fuel=50)


def tsv_lines(params, ps_nums):
    """TSV (readname, haplotype, phaseset, chromosome) for the reads of the harness"""
    lines = ["#readname\thaplotype\tphaseset\tchromosome\n"]
    exp = {}
    absent = []
    st = params["status"]
    for i, s in enumerate(st):
        name = "r0" if (params.get("same_read") and i > 0) else "r%d" % i
        if name in exp and s != "absent":
            # a second listing of an already listed read: the first one wins
            pass
        if s == "absent":
            # this record adds no line to the TSV; the read may still be listed through another record of the same read
            absent.append(name)
            continue
        hap = s if s in ("H1", "H2", "none") else "H2"
        psn = ps_nums[i]
        if s == "none":
            lines.append("%s\tnone\tnone\tchr1\n" % name)
            exp.setdefault(name, ("none", "none", None))
        else:
            lines.append(rt.vp_fmt_("%s\t%s\t%d\tchr%d\n", (name, hap, psn, i + 1)))
            exp.setdefault(name, (hap, "chr%d" % (i + 1), psn))
            if s == "twice":
                lines.append(rt.vp_fmt_("%s\tH1\t%d\tchrX\n", (name, psn + 1)))
    for name in absent:
        exp.setdefault(name, ("none", "none", None))
    return lines, exp


def names_of(params):
    return ["r0" if (params.get("same_read") and i > 0) else "r%d" % i for i in range(len(params["status"]))]


def fix_expectation(params, exp_first):
    """with same_read the first listed entry of r0 wins; 'absent' then means no line was added by that record"""
    return exp_first


def pick2(x):
    return 7 if x == 0 else 8


def build(params):
    if params.get("kind") == "parsed":
        return build_parsed(params)
    n = len(params["status"])
    args = []
    pre = []
    for i in range(n):
        args += [("c%d_%d" % (i, j), "int") for j in range(9)] + [("ps%d" % i, "int")]
        pre.append(" and ".join("c%d_%d >= 0" % (i, j) for j in range(9)) + (" and 0 <= ps%d <= 1" if params.get("pssel") else " and ps%d >= 0") % i)

    def case(*a):
        P, GA = M["P"], M["GA"]
        e = stubs.env()
        cols = [a[10 * i:10 * i + 9] for i in range(n)]
        psn = [a[10 * i + 9] for i in range(n)]
        if params.get("pssel"):
            # phase-set numbers from a concrete menu (selected symbolically): equal numbers on different contigs included
            psn = [pick2(x) for x in psn]
        tsv, exp = tsv_lines(params, psn)
        e.files["h.tsv"] = stubs.MFile("text", tsv, None)
        names = names_of(params)
        recs = []
        for i in range(n):
            c = cols[i]
            tags = TAGMENU[params["tags"][i]]
            cg = [v for k, v in tags if k == "cg:Z:"]
            recs.append((i, (lambda i=i, c=c, tags=tags, cg=cg: GA.Alignment(
                names[i], c[0], c[1], c[2], params["strand"][i], PATHS[params["path"][i]], c[3], c[4], c[5], c[6], c[7], c[8], True,
                cg[0] if cg else "", tags={k: v for k, v in tags}))))
        e.gaf_records["in.gaf"] = recs
        P.add_phase_info("in.gaf", "h.tsv", "o.gaf")
        out = e.files["o.gaf"].lines
        if len(out) != n:
            return "%d output lines for %d records" % (len(out), n)
        for i in range(n):
            f = out[i].rstrip("\n").split("\t")
            c = cols[i]
            want12 = [names[i], c[0], c[1], c[2], params["strand"][i], PATHS[params["path"][i]], c[3], c[4], c[5], c[6], c[7], c[8]]
            if len(f) < 12:
                return "record %d has fewer than 12 columns" % i
            for j, w in enumerate(want12):
                g = f[j]
                if isinstance(w, str):
                    if not (g == w):
                        return "record %d: column %d changed (%s)" % (i, j + 1, "strand" if j == 4 else "text")
                else:
                    try:
                        gv = rt.sym_int(g)
                    except ValueError:
                        return "record %d: column %d is not a number" % (i, j + 1)
                    if not (gv == w):
                        return "record %d: numeric column %d changed" % (i, j + 1)
            opt = f[12:]
            psf = []
            htf = []
            rest = []
            for x in opt:
                if isinstance(x, str):
                    if x == "":
                        return "record %d: empty field (stray tab)" % i
                    if not TAG_RE.match(x):
                        return "record %d: malformed optional field %r" % (i, x)
                    if x.startswith("ps:Z:"):
                        psf.append(x)
                    elif x.startswith("ht:Z:"):
                        htf.append(x)
                    else:
                        rest.append(x)
                else:
                    if x.startswith("ps:Z:"):
                        psf.append(x)
                    else:
                        return "record %d: unexpected field with symbolic content" % i
            hap, chrom, num = exp[names[i]]
            if len(psf) != 1 or len(htf) != 1:
                return "record %d: %d ps fields, %d ht fields" % (i, len(psf), len(htf))
            if hap == "none":
                if not (psf[0] == "ps:Z:none" and htf[0] == "ht:Z:none"):
                    return "record %d: unphased/absent read not tagged none" % i
            else:
                wantps = rt.vp_fmt_("ps:Z:%s-%d", (chrom, num))
                if not (psf[0] == wantps):
                    return "record %d: ps tag does not carry contig-phaseset of the TSV" % i
                if not (htf[0] == "ht:Z:" + hap):
                    return "record %d: ht tag does not carry the haplotype of the TSV" % i
            wantrest = [k + v for k, v in TAGMENU[params["tags"][i]]]
            if rest != wantrest:
                return "record %d: optional fields %r, input had %r" % (i, rest, wantrest)
        return None

    return Harness(args, pre, case, fuel=50)


def replay(params, model, wd):
    import gaftools.cli.phase as P

    if params.get("kind") == "parsed":
        import pysam

        ma = list(model["args"]) + [0]
        lines, names, tsv, st = parsed_setup(ma[:3], NAMECH[ma[3]])
        gaf = os.path.join(wd, "in.gaf")
        open(gaf, "w").write("".join(lines)[:-1] if params.get("nonl") else "".join(lines))
        if params["gz"]:
            pysam.tabix_compress(gaf, gaf + ".gz", force=True)
            gaf += ".gz"
        tp = os.path.join(wd, "h.tsv")
        open(tp, "w").write("".join(tsv))
        out = os.path.join(wd, "o.gaf")
        try:
            # the same history as the harness: an earlier call in the same process with a TSV that phases every read
            tp0 = os.path.join(wd, "h0.tsv")
            open(tp0, "w", encoding="utf-8").write("@p0\tH2\t5\tchrX\np1\tH2\t5\tchrX\n%s\tH2\t5\tchrX\n" % names[2])
            P.run(gaf, tp0, os.path.join(wd, "o0.gaf"))
            P.run(gaf, tp, out)
        except BaseException as e:  # noqa
            return {"reproduced": True, "key": "C20:parsed:exception", "what": repr(e)}
        got = open(out).read().split("\n")
        if got and got[-1] == "":
            got = got[:-1]
        r = parsed_check(got, lines, names, st)
        if r:
            kind = "phase-tags" if "phase tags" in r else "optional-fields" if "optional" in r else "columns" if "columns" in r else "count"
            return {"reproduced": True, "key": "C20:parsed:%s" % kind, "what": r, "files": {"gaf": lines, "tsv": tsv, "output": got}}
        return {"reproduced": False, "detail": "parsed records re-emitted unchanged, phase tags as listed"}

    n = len(params["status"])
    a = model["args"]
    cols = [a[10 * i:10 * i + 9] for i in range(n)]
    psn = [a[10 * i + 9] for i in range(n)]
    if params.get("pssel"):
        psn = [pick2(x) for x in psn]
    tsv, exp = tsv_lines(params, psn)
    names = names_of(params)
    lines = []
    for i in range(n):
        c = cols[i]
        tags = "".join("\t" + k + v for k, v in TAGMENU[params["tags"][i]])
        lines.append("%s\t%d\t%d\t%d\t%s\t%s\t%d\t%d\t%d\t%d\t%d\t%d%s" % (names[i], c[0], c[1], c[2], params["strand"][i], PATHS[params["path"][i]],
                                                                           c[3], c[4], c[5], c[6], c[7], c[8], tags))
    gaf = os.path.join(wd, "in.gaf")
    open(gaf, "w").write("".join(l + "\n" for l in lines))
    tp = os.path.join(wd, "h.tsv")
    open(tp, "w").write("".join(str(x) for x in tsv))
    out = os.path.join(wd, "o.gaf")
    err = None
    try:
        P.run(gaf, tp, out)
    except BaseException as e:  # noqa
        err = "%s: %s" % (type(e).__name__, e)
    if err:
        return {"reproduced": True, "key": "C20:exception:" + err.split(":")[0], "what": err}
    txt = open(out).read()
    outl = txt.split("\n")
    if outl and outl[-1] == "":
        outl = outl[:-1]
    files = {"gaf": lines, "tsv": [str(x) for x in tsv], "output": outl}
    if len(outl) != n:
        return {"reproduced": True, "key": "C20:count", "what": "%d lines for %d records" % (len(outl), n), "files": files}
    for i in range(n):
        f = outl[i].split("\t")
        inp = lines[i].split("\t")
        if f[:12] != inp[:12]:
            j = [k for k in range(12) if k >= len(f) or f[k] != inp[k]][0]
            return {"reproduced": True, "key": "C20:column:%s" % ("strand" if j == 4 else j + 1),
                    "what": "record %d column %d: %r -> %r" % (i, j + 1, inp[j], f[j] if j < len(f) else None), "files": files}
        opt = f[12:]
        if any(x == "" for x in opt):
            return {"reproduced": True, "key": "C20:empty-field", "what": "record %d has an empty field (stray tab): %r" % (i, outl[i]), "files": files}
        bad = [x for x in opt if not TAG_RE.match(x)]
        if bad:
            return {"reproduced": True, "key": "C20:malformed-field", "what": "record %d has malformed optional field(s) %r" % (i, bad), "files": files}
        ps = [x for x in opt if x.startswith("ps:Z:")]
        ht = [x for x in opt if x.startswith("ht:Z:")]
        rest = [x for x in opt if not x.startswith(("ps:Z:", "ht:Z:"))]
        hap, chrom, num = exp[names[i]]
        wps = "ps:Z:none" if hap == "none" else "ps:Z:%s-%d" % (chrom, num)
        wht = "ht:Z:" + hap
        if ps != [wps] or ht != [wht]:
            return {"reproduced": True, "key": "C20:phase-tags", "what": "record %d: %r %r, expected %s %s" % (i, ps, ht, wps, wht), "files": files}
        if rest != inp[12:]:
            return {"reproduced": True, "key": "C20:optional-fields", "what": "record %d optional fields %r, input %r" % (i, rest, inp[12:]), "files": files}
    return {"reproduced": False, "detail": "phase output matches", "output": outl}
