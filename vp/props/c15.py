"""C15 — graph decomposition primitives are exact."""
import itertools
import os

from .. import rt, stubs
from ..engine import Harness
from ..rt import NoTracing

ID = "C15"
M = {}

META = {
    "level": "other",
    "functions": {"gaftools.gfa": ["GFA.find_component", "GFA.all_components", "GFA.biccs", "GFA.dfs", "Node.neighbors", "GFA.add_node",
                                   "GFA.add_edge", "GFA.remove_node", "GFA.remove_edge", "Node.remove_from_start", "Node.remove_from_end"]},
    "explanation": "Symbolic execution (CrossHair/z3) of the real GFA primitives on graphs assembled through the library API "
    "from symbolic selectors: per unordered node pair one of {no link, ++, +-, --, two parallel links on different sides (two "
    "variants)}, per node one of {no self-link, ++, +-}; the solver enumerates every combination within the node bound.  "
    "Oracles written independently of the library: components by closure; articulation point iff removal disconnects; "
    "biconnected components as classes of the 'on a common simple cycle' relation on links (every link in exactly one); dfs "
    "visits each node of the component once.  Edits are checked as ONE INDUCTIVE STEP from an arbitrary valid state: the "
    "pre-state (<=2 nodes, <=2 links incl. self-links, with or without link tags) is built directly, one add_edge / "
    "remove_node / add_node with arbitrary arguments is executed, and the representation (adjacency sets of both ends, "
    "edge_tags) must equal the representation of the abstract result; one step covers histories of any length.",
    "bounds": {"quick": "all multigraphs over the menu with N<=3 nodes (5832 labelled graphs); edit step from every valid state on <=2 nodes",
               "thorough": "N=4 with per-pair menu {none, ++, +-, parallel} and self-links {none, ++} (65536 labelled graphs)"},
    "out": ["N > 4 nodes", "larger random / real graphs", "overlap values other than 0 (hashing a symbolic overlap would concretise)"],
    "assumptions": ["selectors range over the stated finite menus", "invariant used for the inductive step: adjacency entry (b,sb,ov) in side "
                    "sa of a iff (a,sa,ov) in side sb of b; no dangling ids; edge_tags keys are links of the graph"],
}
META["explanation"] += '  edit/add_node also re-adds an id that is already in the graph (documented: warning, no change).'
META["explanation"] += '  decomp/N4-simple/h0..h7: every labelled simple graph on four nodes (64) under eight hash seeds.'

PAIR_MENU = [[], [("+", "+")], [("+", "-")], [("-", "-")], [("+", "+"), ("-", "-")], [("+", "-"), ("-", "+")]]
SELF_MENU = [[], [("+", "+")], [("+", "-")]]
PAIR_MENU4 = [[], [("+", "+")], [("+", "-")], [("+", "+"), ("-", "-")]]
SELF_MENU4 = [[], [("+", "+")]]


def setup():
    import gaftools.gfa as G

    M["G"] = G


def pick(sel, options):
    for i, o in enumerate(options):
        if sel == i:
            return o
    return options[-1]


def harnesses(tier):
    hs = []
    for n in (1, 2):
        hs.append({"id": "decomp/N%d" % n, "params": {"kind": "decomp", "n": n, "fixed": []}, "timeout": 300, "twin": n == 2})
    for pab in range(len(PAIR_MENU)):
        for sa in range(len(SELF_MENU)):
            hs.append({"id": "decomp/N3/ab%d-a%d" % (pab, sa), "params": {"kind": "decomp", "n": 3, "fixed": [pab, sa]}, "timeout": 900})
    for seed in range(8):  # the search order of biccs() follows the iteration order of sets of names
        hs.append({"id": "decomp/N4-simple/h%d" % seed, "params": {"kind": "decomp4", "fixed": [], "binary": True, "hashseed": seed}, "timeout": 900})
    for op in ("add_edge", "remove_node", "add_node"):
        for hasb in (0, 1):
            if op == "add_edge" and hasb:
                for l1 in range(17):
                    hs.append({"id": "edit/add_edge/b1/l%d" % l1, "params": {"kind": "edit", "op": op, "hasb": 1, "l1": l1,
                                                                            "t2": tier == "thorough"}, "timeout": 1200, "twin": l1 == 0})
            else:
                hs.append({"id": "edit/%s/b%d" % (op, hasb), "params": {"kind": "edit", "op": op, "hasb": hasb, "sym": True,
                                                                       "t2": tier == "thorough"}, "timeout": 900})
    hs.append({"id": "history/remove-readd", "params": {"kind": "history"}, "timeout": 300})
    if tier == "thorough":
        for p0 in range(4):
            for p1 in range(4):
                hs.append({"id": "decomp/N4/%d-%d" % (p0, p1), "params": {"kind": "decomp4", "fixed": [p0, p1]}, "timeout": 3000})
    return hs


# ---- independent oracles ---------------------------------------------------------------------


def simple_adj(nodes, links):
    adj = {n: set() for n in nodes}
    for (u, du, v, dv) in links:
        if u != v:
            adj[u].add(v)
            adj[v].add(u)
    return adj


def closure(adj, start, removed=()):
    seen = {start}
    todo = [start]
    while todo:
        x = todo.pop()
        for y in adj[x]:
            if y not in seen and y not in removed:
                seen.add(y)
                todo.append(y)
    return seen


def true_components(nodes, links):
    adj = simple_adj(nodes, links)
    # self-links and everything else keep a node in its own component
    comps = []
    seen = set()
    for n in nodes:
        if n not in seen:
            c = closure(adj, n)
            comps.append(frozenset(c))
            seen |= c
    return set(comps)


def true_artic(nodes, links):
    adj = simple_adj(nodes, links)
    out = set()
    for n in nodes:
        rest = [m for m in nodes if m != n]
        if len(rest) < 2:
            continue
        c = closure(adj, rest[0], removed=(n,))
        if len(c) != len(rest):
            out.add(n)
    return out


def simple_cycles(adj):
    """all simple cycles (as edge sets) of a tiny simple graph"""
    cycles = set()
    nodes = sorted(adj)

    def ext(path):
        last = path[-1]
        for y in adj[last]:
            if y == path[0] and len(path) >= 3:
                cycles.add(frozenset(frozenset((path[i], path[(i + 1) % len(path)])) for i in range(len(path))))
            elif y not in path and y > path[0]:
                ext(path + [y])

    for s in nodes:
        ext([s])
    return cycles


def true_blocks(nodes, links):
    adj = simple_adj(nodes, links)
    edges = {frozenset((u, v)) for (u, du, v, dv) in links if u != v}
    parent = {e: e for e in edges}

    def find(e):
        while parent[e] != e:
            e = parent[e]
        return e

    for cyc in simple_cycles(adj):
        cyc = list(cyc)
        for e in cyc[1:]:
            parent[find(e)] = find(cyc[0])
    groups = {}
    for e in edges:
        groups.setdefault(find(e), set()).update(e)
    return {frozenset(g) for g in groups.values()}


def build_graph(nodes, links, tagged=()):
    g = M["G"].GFA()
    for n in nodes:
        g.add_node(n)
    for i, (u, du, v, dv) in enumerate(links):
        g.add_edge(u, du, v, dv, 0, ["XX:i:%d" % i] if i in tagged else None)
    return g


def check_decomp(nodes, links):
    with NoTracing():  # the oracles work on concrete data; CrossHair's set/frozenset stand-ins are not needed
        want = true_components(nodes, links)
        ta = true_artic(nodes, links)
        tb = true_blocks(nodes, links)
    g = build_graph(nodes, links)
    comps = g.all_components()
    got = [frozenset(c) for c in comps]
    if len(got) != len(set(got)) or set(got) != want:
        return "all_components %r, true components %r (links %r)" % (sorted(map(sorted, got)), sorted(map(sorted, want)), links)
    if any(n.visited for n in g.nodes.values()):
        return "visited flags left set after all_components"
    for n in nodes:
        d = g.dfs(n)
        comp = [c for c in want if n in c][0]
        if len(d) != len(set(d)) or set(d) != set(comp):
            return "dfs(%s) = %r, component is %r (links %r)" % (n, d, sorted(comp), links)
    if len(want) == 1:
        blocks, artic = g.biccs()
        if set(artic) != ta:
            return "articulation points %r, true %r (links %r)" % (sorted(artic), sorted(ta), links)
        gb = [frozenset(b) for b in blocks]
        # self-links may add singleton or contained sets: a reported set counts if it is a true block
        gbs = {b for b in gb if len(b) > 1}
        if gbs != tb or len([b for b in gb if len(b) > 1]) != len(tb):
            return "biconnected components %r, true %r (links %r)" % (sorted(map(sorted, gb)), sorted(map(sorted, tb)), links)
        for (u, du, v, dv) in links:
            if u != v and sum(1 for b in gb if u in b and v in b) != 1:
                return "link %s-%s is not in exactly one reported component" % (u, v)
    return None


# ---- representation of an abstract graph ------------------------------------------------------

EDIR = {("+", "+"): (1, 0), ("+", "-"): (1, 1), ("-", "+"): (0, 0), ("-", "-"): (0, 1)}


BOTH = "both-orientations"


def representation(nodes, links, tags):
    """expected adjacency sets and edge_tags from the abstract graph (links: set of (u,du,v,dv)).  A tag list that starts
    with BOTH stands for a link that was declared (with tags) from both of its ends."""
    start = {n: set() for n in nodes}
    end = {n: set() for n in nodes}
    for (u, du, v, dv) in links:
        su, sv = EDIR[(du, dv)]
        (end if su == 1 else start)[u].add((v, sv, 0))
        (end if sv == 1 else start)[v].add((u, su, 0))
    et = {}
    for (u, du, v, dv), t in tags.items():
        su, sv = EDIR[(du, dv)]
        if t and t[0] == BOTH:
            et[(u, su, v, sv)] = t[1:]
            et[(v, sv, u, su)] = t[1:]
        else:
            et[(u, su, v, sv)] = t
    return start, end, et


def direct_state(nodes, links, tags):
    """a GFA object in the given abstract state, built without the mutators under test"""
    G = M["G"]
    g = G.GFA()
    start, end, et = representation(nodes, links, tags)
    for n in nodes:
        nd = G.Node(n)
        nd.start = set(start[n])
        nd.end = set(end[n])
        g.nodes[n] = nd
    g.edge_tags = {k: v for k, v in et.items()}
    return g


def same_link(a, b):
    flip = {"+": "-", "-": "+"}
    return a == b or a == (b[2], flip[b[3]], b[0], flip[b[1]])


def compare(g, nodes, links, tags, what):
    start, end, et = representation(nodes, links, tags)
    if set(g.nodes.keys()) != set(nodes):
        return "%s: node set %r, expected %r" % (what, sorted(g.nodes.keys()), sorted(nodes))
    for n in nodes:
        if set(g.nodes[n].start) != start[n] or set(g.nodes[n].end) != end[n]:
            return "%s: adjacency of %s is start=%r end=%r, expected start=%r end=%r" % (
                what, n, sorted(g.nodes[n].start), sorted(g.nodes[n].end), sorted(start[n]), sorted(end[n]))
    # edge_tags may store a link under either declaration; compare as links
    def canon(k):
        return frozenset([k, (k[2], k[3], k[0], k[1])])
    got = {canon(k): v for k, v in g.edge_tags.items()}
    want = {canon(k): v for k, v in et.items()}
    if got != want:
        return "%s: edge_tags %r, expected %r" % (what, dict(g.edge_tags), et)
    return None


def links_over(nodes):
    return [(u, du, v, dv) for u in nodes for du in "+-" for v in nodes for dv in "+-"]


def build(params):
    kind = params["kind"]
    if kind == "decomp":
        n = params["n"]
        nodes = ["a", "b", "c"][:n]
        pairs = list(itertools.combinations(nodes, 2))
        fixed = params["fixed"]
        args = [("p%d" % i, "int") for i in range(len(pairs))] + [("s%d" % i, "int") for i in range(n)]
        pre = []
        for i in range(len(pairs)):
            pre.append(("p%d == %d" % (i, fixed[0])) if (fixed and i == 0) else "0 <= p%d <= %d" % (i, len(PAIR_MENU) - 1))
        for i in range(n):
            pre.append(("s%d == %d" % (i, fixed[1])) if (fixed and i == 0) else "0 <= s%d <= %d" % (i, len(SELF_MENU) - 1))

        def case(*a):
            links = []
            for i, (u, v) in enumerate(pairs):
                for du, dv in pick(a[i], PAIR_MENU):
                    links.append((u, du, v, dv))
            for i, u in enumerate(nodes):
                for du, dv in pick(a[len(pairs) + i], SELF_MENU):
                    links.append((u, du, u, dv))
            return check_decomp(nodes, links)

        return Harness(args, pre, case, fuel=400)
    if kind == "decomp4":
        nodes = ["a", "b", "c", "d"]
        pairs = list(itertools.combinations(nodes, 2))
        fixed = params["fixed"]
        args = [("p%d" % i, "int") for i in range(6)] + [("s%d" % i, "int") for i in range(4)]
        pre = []
        if params.get("binary"):
            # every labelled simple graph on four nodes (each pair linked + + or not at all, no self-links)
            pre.append(" and ".join("0 <= p%d <= 1" % i for i in range(6)))
            pre.append(" and ".join("s%d == 0" % i for i in range(4)))
        else:
            for i in range(6):
                pre.append(("p%d == %d" % (i, fixed[i])) if i < 2 else "0 <= p%d <= 3" % i)
            pre.append(" and ".join("0 <= s%d <= 1" % i for i in range(4)))

        def case(*a):
            links = []
            for i, (u, v) in enumerate(pairs):
                for du, dv in pick(a[i], PAIR_MENU4):
                    links.append((u, du, v, dv))
            for i, u in enumerate(nodes):
                for du, dv in pick(a[6 + i], SELF_MENU4):
                    links.append((u, du, u, dv))
            return check_decomp(nodes, links)

        return Harness(args, pre, case, fuel=1000)
    if kind == "edit":
        op = params["op"]
        nodes = ["a", "b"] if params["hasb"] else ["a"]
        LO = links_over(nodes)
        nl = len(LO)
        args = [("l1", "int"), ("t1", "int"), ("l2", "int"), ("t2", "int"), ("x", "int"), ("dx", "int"), ("y", "int"), ("dy", "int"), ("tg", "int")]
        tmax = 2 if op == "remove_node" else 1
        pre = ["0 <= l1 <= %d and 0 <= l2 <= %d and 0 <= t1 <= %d and 0 <= t2 <= 1" % (nl, nl, tmax),
               "0 <= x <= %d and 0 <= y <= %d and 0 <= dx <= 1 and 0 <= dy <= 1 and 0 <= tg <= 1" % (len(nodes) - 1, len(nodes) - 1)]
        if "l1" in params:
            pre.append("l1 == %d and l2 >= l1" % params["l1"])
        if params.get("sym"):
            pre.append("l2 >= l1")
        if ("l1" in params or params.get("sym")) and not params.get("t2"):
            pre.append("t2 == 0")
        if op == "remove_node":
            pre.append("y == 0 and dx == 0 and dy == 0 and tg == 0")
        if op == "add_node":
            pre.append("y == 0 and dx == 0 and dy == 0")  # tg: 0 = a new node, 1 = an id that is already in the graph
        if op == "add_node":
            pre.append("x == 0")

        def case(l1, t1, l2, t2, x, dx, y, dy, tg):
            links = set()
            tags = {}
            for sel, t in ((l1, t1), (l2, t2)):
                l = pick(sel, LO + [None])
                if l is None:
                    continue
                if any(same_link(l, m) for m in links):
                    continue
                links.add(l)
                tm = pick(t, [0, 1, 2])
                if tm == 1:
                    tags[l] = ["XX:i:7"]
                elif tm == 2:
                    tags[l] = [BOTH, "XX:i:7"]
            g = direct_state(nodes, links, tags)
            r = compare(g, nodes, links, tags, "pre-state")
            if r:
                return "HARNESS: " + r
            xn = pick(x, nodes)
            if op == "add_edge":
                yn = pick(y, nodes)
                nl_ = (xn, pick(dx, "+-"), yn, pick(dy, "+-"))
                newtags = ["YY:i:1"] if pick(tg, [0, 1]) else None
                g.add_edge(nl_[0], nl_[1], nl_[2], nl_[3], 0, newtags)
                old = [m for m in links if same_link(nl_, m)]
                if old:
                    if newtags:
                        # the same link declared again with tags: the tags belong to that link
                        tags = {k: v for k, v in tags.items() if k != old[0]}
                        links.discard(old[0])
                        links.add(nl_)
                        tags[nl_] = newtags
                else:
                    links.add(nl_)
                    if newtags:
                        tags[nl_] = newtags
                return compare(g, nodes, links, tags, "after add_edge%r" % (nl_,))
            if op == "remove_node":
                g.remove_node(xn)
                left = [n for n in nodes if n != xn]
                links2 = {l for l in links if l[0] != xn and l[2] != xn}
                tags2 = {k: v for k, v in tags.items() if k in links2}
                return compare(g, left, links2, tags2, "after remove_node(%s)" % xn)
            if pick(tg, [0, 1]):
                # adding an id that exists is documented as a warning and no change (the nodes here carry no sequence)
                g.add_node(xn)
                return compare(g, nodes, links, tags, "after add_node(%s) for an existing node" % xn)
            g.add_node("c")
            return compare(g, nodes + ["c"], links, tags, "after add_node(c)")

        return Harness(args, pre, case, fuel=50)
    if kind == "history":
        args = [("d1", "int"), ("d2", "int")]
        pre = ["0 <= d1 <= 1 and 0 <= d2 <= 1"]

        def case(d1, d2):
            e = stubs.env()
            G = M["G"]
            da, db = pick(d1, "+-"), pick(d2, "+-")
            g = G.GFA()
            g.add_node("a", "AC")
            g.add_node("b", "GT")
            g.add_edge("a", da, "b", db, 0, ["XX:i:7"])
            g.remove_node("a")
            g.add_node("a", "AC")
            g.add_edge("a", da, "b", db, 0, [0])
            g.write_gfa(output_file="o.gfa")
            out = [l.rstrip("\n") for l in e.files["o.gfa"].lines if isinstance(l, str) and l.startswith("L")]
            if any("XX:i:7" in l for l in out):
                return "tags of a deleted link reappear on the re-added link: %r" % out
            if len(out) != 1:
                return "expected one L line, got %r" % out
            return None

        return Harness(args, pre, case, fuel=50)
    raise AssertionError(kind)


def replay(params, model, wd):
    """plain modules: rerun the same concrete scenario with the unmodified library"""
    import gaftools.gfa as G

    M["G"] = G
    kind = params["kind"]
    a = model["args"]
    if kind in ("decomp", "decomp4"):
        if kind == "decomp":
            n = params["n"]
            nodes = ["a", "b", "c"][:n]
            pm, sm = PAIR_MENU, SELF_MENU
        else:
            nodes = ["a", "b", "c", "d"]
            pm, sm = PAIR_MENU4, SELF_MENU4
        pairs = list(itertools.combinations(nodes, 2))
        links = []
        for i, (u, v) in enumerate(pairs):
            for du, dv in pm[a[i]]:
                links.append((u, du, v, dv))
        for i, u in enumerate(nodes):
            for du, dv in sm[a[len(pairs) + i]]:
                links.append((u, du, u, dv))
        try:
            r = check_decomp(nodes, links)
        except Exception as e:
            r = "exception %r" % (e,)
        if r:
            key = "C15:" + ("components" if r.startswith("all_components") else "dfs" if r.startswith("dfs") else "artic" if r.startswith("artic") else
                            "biccs" if r.startswith("bicon") or r.startswith("link") else "other")
            return {"reproduced": True, "key": key, "what": r, "level": "library API on the real module"}
        return {"reproduced": False, "detail": "library agrees with the oracles on %r" % (links,)}
    if kind == "history":
        import gaftools.gfa as G

        da, db = "+-"[a[0]], "+-"[a[1]]
        g = G.GFA()
        g.add_node("a", "AC")
        g.add_node("b", "GT")
        g.add_edge("a", da, "b", db, 0, ["XX:i:7"])
        g.remove_node("a")
        g.add_node("a", "AC")
        g.add_edge("a", da, "b", db, 0, [0])
        out = os.path.join(wd, "o.gfa")
        g.write_gfa(output_file=out)
        ls = [l.rstrip("\n") for l in open(out) if l.startswith("L")]
        bad = any("XX:i:7" in l for l in ls) or len(ls) != 1
        return {"reproduced": bad, "key": "C15:stale-edge-tags", "what": "add a,b; link a%s b%s with tag XX:i:7; delete a; re-add a and the link "
                "without tags; write_gfa gives %r" % (da, db, ls), "level": "library API on the real module"}
    # edit step: run the same concrete step on the real module
    sym_case = build(params).case
    stubs.reset()
    try:
        r = sym_case(*a)
    except Exception as e:
        r = "exception %r" % (e,)
    if r and not str(r).startswith("HARNESS"):
        key = "C15:edit:%s:%s" % (params["op"], "edge_tags" if "edge_tags" in r else "adjacency" if "adjacency" in r else "other")
        return {"reproduced": True, "key": key, "what": r, "level": "library API on the real module"}
    return {"reproduced": False, "detail": str(r)}
