"""Path tokenizers: every regular expression the analysed modules apply to a GAF path column is read from the
current source (AST), translated to a z3 regular expression and compared, by the solver, with what a path is made of:
oriented steps  [><] NAME  where NAME is any non-empty string of printable characters other than > and <.

  re.split(P, path)     the separators are exactly ">" and "<":   { x in A* : x in L(P) } == { ">", "<" }
  re.findall(P, path)   the matches are exactly the steps:         { x in A* : x in L(P) } == [><] NAME+      (greedy quantifiers)

A (printable ASCII without white space) is the alphabet of a path column, |x| <= BOUND.  unsat = the tokenizer cuts every
path into its steps; sat = a witness string, turned into a segment / contig name and replayed through the real command on
real files.  Only a reproduced witness is reported."""
import ast
import os

from .. import loader

BOUND = 6


def sites(relpath):
    """regex calls whose subject is a path column: (function, method, pattern, lineno, subject text)"""
    path = os.path.join(loader.REPO, relpath)
    tree = ast.parse(open(path).read())
    out = []

    class V(ast.NodeVisitor):
        def __init__(self):
            self.fn = ["<module>"]

        def visit_FunctionDef(self, node):
            self.fn.append(node.name)
            self.generic_visit(node)
            self.fn.pop()

        def visit_Call(self, node):
            self.generic_visit(node)
            f = node.func
            if isinstance(f, ast.Attribute) and isinstance(f.value, ast.Name) and f.value.id == "re" and len(node.args) >= 2:
                pat = node.args[0]
                subj = ast.unparse(node.args[1])
                if isinstance(pat, ast.Constant) and isinstance(pat.value, str) and ("path" in subj or "[5]" in subj):
                    out.append({"function": self.fn[-1], "method": f.attr, "pattern": pat.value, "line": node.lineno, "subject": subj})

    V().visit(tree)
    return out


def _has_lazy(pattern):
    import re._constants as sc
    import re._parser as sp

    def walk(items):
        for op, av in items:
            if op is sc.MIN_REPEAT:
                return True
            if op in (sc.MAX_REPEAT,):
                if walk(av[2]):
                    return True
            elif op is sc.SUBPATTERN:
                if walk(av[3]):
                    return True
            elif op is sc.BRANCH:
                if any(walk(b) for b in av[1]):
                    return True
        return False

    return walk(list(sp.parse(pattern)))


def decide(site):
    """-> dict(verdict, witness?, ...) for one site"""
    import z3
    from .. import rx
    from .c16 import second_opinion

    namech = z3.Union(z3.Range("!", ";"), z3.Re("="), z3.Range("?", "~"))
    orient = z3.Union(z3.Re(">"), z3.Re("<"))
    alpha = z3.Union(namech, orient)
    m = site["method"]
    if m == "split":
        ref = orient
    elif m in ("findall", "finditer"):
        ref = z3.Concat(orient, z3.Plus(namech))
        if _has_lazy(site["pattern"]):
            return {"verdict": "inconclusive", "cx_message": "lazy quantifier in %r: match extent is not the language" % site["pattern"]}
    else:
        return {"verdict": "inconclusive", "cx_message": "re.%s on a path column: not a tokenizer shape this query knows" % m}
    try:
        pr = rx.to_z3(site["pattern"])
    except rx.NotTranslatable as e:
        return {"verdict": "inconclusive", "cx_message": "regex %r not translatable: %s" % (site["pattern"], e)}
    x = z3.String("x")
    s = z3.Solver()
    s.set("timeout", 120000)
    s.add(z3.InRe(x, z3.Star(alpha)))
    s.add(z3.Length(x) <= BOUND)
    s.add(z3.Xor(z3.InRe(x, pr), z3.InRe(x, ref)))
    r = s.check()
    r2 = second_opinion(s, str(r))
    info = {"queries": 2, "z3": str(r), "z3_4_8_12": r2, "site": site}
    if str(r) == "unknown" or r2 not in ("sat", "unsat") or r2 != str(r):
        return dict(info, verdict="inconclusive", cx_message="solvers: z3=%s z3-4.8.12=%s" % (r, r2))
    if str(r) == "unsat":
        return dict(info, verdict="confirmed")
    w = s.model().eval(x, model_completion=True).as_string()
    return dict(info, verdict="refuted", witness=w)


def run(params):
    """Direct obligation: all path tokenizers of one source file"""
    ss = sites(params["file"])
    if params.get("functions"):
        ss = [s for s in ss if s["function"] in params["functions"]]
    if not ss:
        # the file no longer tokenizes paths with a regular expression: nothing for this query to decide (the symbolic
        # executions of the same functions still run the new code)
        return {"verdict": "confirmed", "paths": 0, "reached": 1, "queries": 0, "note": "no regular expression is applied to a path column in %s" % params["file"]}
    q = 0
    notes = []
    for st in ss:
        d = decide(st)
        q += d.get("queries", 0)
        if d["verdict"] == "refuted":
            return {"verdict": "refuted", "queries": q, "paths": len(ss), "reached": 1,
                    "fail": {"args": [d["witness"], st["function"], st["method"], st["pattern"]],
                             "reason": "re.%s(%r, %s) in %s:%d (%s) does not cut a path into its oriented steps: witness %r" % (
                                 st["method"], st["pattern"], st["subject"], params["file"], st["line"], st["function"], d["witness"])}}
        if d["verdict"] != "confirmed":
            return dict(d, queries=q, paths=len(ss), reached=1)
        notes.append("%s:%d re.%s(%r)" % (st["function"], st["line"], st["method"], st["pattern"]))
    return {"verdict": "confirmed", "paths": len(ss), "reached": 1, "queries": q, "note": "; ".join(notes), "bound": "|x| <= %d over printable ASCII" % BOUND}


# ------------------------------------------------------------------------------------------
# replay: the witness becomes a name


def names_from(witness, method):
    """candidate segment names that make the witness occur in a path"""
    inner = witness.replace(">", "").replace("<", "")
    cands = []
    if method == "split":
        if inner:
            cands.append("n" + inner + "m")
    else:
        if inner and witness[:1] in "<>" and not any(c in "<>" for c in witness[1:]):
            cands.append(inner)  # a step the pattern does not match as a whole
        if inner:
            cands.append("n" + inner + "m")
    for extra in ("s1.2", "s1-alt", "a#b|c", "x=y"):
        cands.append(extra)
    seen = []
    for c in cands:
        if c not in seen and ":" not in c:
            seen.append(c)
    return seen


def word_prefix(name):
    import re

    m = re.match(r"\w+", name)
    return m.group(0) if m and m.group(0) != name else None


def replay(params, model, wd):
    witness, fn, method, pattern = model["args"][:4]
    rel = params["file"]
    scen = {"gaftools/gfa.py": scen_find_path, "gaftools/cli/index.py": scen_index, "gaftools/conversion.py": scen_view, "gaftools/cli/sort.py": scen_sort}[rel]
    tried = []
    for i, name in enumerate(names_from(witness, method)):
        d = os.path.join(wd, "n%d" % i)
        os.makedirs(d)
        try:
            r = scen(d, name)
        except BaseException as e:  # noqa
            r = "%s: %s" % (type(e).__name__, e)
        tried.append(name)
        if r:
            return {"reproduced": True, "key": "%s:tokens:%s:%s" % (params["prop"], os.path.basename(rel), fn),
                    "what": "re.%s(%r) in %s (%s): with a segment named %r - %s" % (method, pattern, rel, fn, name, r),
                    "files": {"segment_name": name, "solver_witness": witness}}
    return {"reproduced": False, "detail": "names %r behave correctly through the real command" % (tried,)}


def scen_find_path(wd, name):
    from . import c14
    import gaftools.cli.find_path as FP

    pre = word_prefix(name)
    c14.NAMESETS.append({"a": name, "b": pre or "b", "c": "c"})
    c14.NAMESET[0] = len(c14.NAMESETS) - 1
    c14.LINE_ORDER[0] = 0
    try:
        links = [("a", "+", "b", "+"), ("b", "+", "c", "-"), ("c", "+", "a", "+")]
        menu = [">a>b", "<b<a", ">a>b<c", ">c>a", ">a>c", ">a", "<a", ">b"]
        gfa = os.path.join(wd, "g.gfa")
        open(gfa, "w").write("".join(c14.gfa_lines("abc", links)))
        walks = [c14.pwalk(p) for p in menu]
        inp = os.path.join(wd, "paths.txt")
        open(inp, "w").write("".join(c14.ptext(w) + "\n" for w in walks))
        out = os.path.join(wd, "o.txt")
        FP.run(gfa, inp, output=out, fasta=False)
        got = open(out).read().split("\n")[:-1]
        want = [c14.expected(links, w) for w in walks]
        if got != want:
            return "find_path wrote %r for the paths %r, expected %r" % (got, [c14.ptext(w) for w in walks], want)
        return None
    finally:
        c14.NAMESETS.pop()
        c14.NAMESET[0] = 0


def scen_index(wd, name):
    import pickle
    from . import idxfam as F
    import gaftools.cli.index as I

    saved = dict(F.EXT)
    savedlay = dict(F.LAY)
    try:
        F.EXT.clear()
        F.EXT.update({"a0": name})
        pre = word_prefix(name)
        if pre:
            F.EXT["a1"] = pre
        for form, walks in (("unstable", [">s0>a0>s1", "<a0", ">s1>a1"]), ("stable", [">s0>a0>s1", "<a0", ">s1>a1"])):
            if form == "stable":
                # the name goes into the contig of the haplotype segments
                F.LAY["a0"] = ("h" + name, 100, 4, 1)
                F.LAY["a1"] = ("h" + name, 110, 10, 1)
            d = os.path.join(wd, form)
            os.makedirs(d)
            recs = F.records_for(form, walks, [(0, 1)] * len(walks))
            gfa, gaf, lines = F.write_real(d, recs)
            out = os.path.join(d, "x.gvi")
            I.run(gaf, gfa, output=out)
            r = F.check_index(pickle.load(open(out, "rb")), recs, F.real_offsets(gaf))
            if r:
                return "gaftools index on a %s GAF: %s" % (form, r)
        return None
    finally:
        F.EXT.clear()
        F.EXT.update(saved)
        F.LAY.clear()
        F.LAY.update(savedlay)


def scen_view(wd, name):
    from . import convfam as CF

    pre = word_prefix(name)
    segs = {"s0": ("chr1", 0, 4, 0), name: ("chr1", 4, 5, 0), "s2": ("chr1", 9, 3, 0), "h0": ("h" + name, 20, 6, 1)}
    if pre and pre not in segs:
        segs[pre] = ("hq", 0, 5, 2)
    walks = [[(">", "s0"), (">", name), (">", "s2")], [("<", "s2"), ("<", name)], [(">", "s0"), (">", "h0"), (">", "s2")], [("<", name)]]
    gfa, seqs = CF.write_rgfa(wd, segs, walks, order=list(segs))
    lines = []
    for i, w in enumerate(walks):
        total = sum(segs[n][2] for _, n in w)
        lines.append("r%d\t50\t0\t%d\t+\t%s\t%d\t1\t%d\t3\t%d\t60\tcg:Z:%d=" % (i, total - 2, "".join(o + n for o, n in w), total, total - 1, total - 2, total - 2))
    st, err = CF.real_view(wd, gfa, lines, "stable", "a")
    if err:
        return "view --format stable raised " + err
    if len(st) != len(lines):
        return "view --format stable wrote %d records for %d" % (len(st), len(lines))
    for a, b in zip(lines, st):
        if CF.spell(a.split("\t"), segs) != CF.spell(b.split("\t"), segs):
            return "record %r converted to %r designates other bases" % (a, b)
    un, err = CF.real_view(wd, gfa, st, "unstable", "b")
    if err:
        return "view --format unstable raised " + err
    if len(un) != len(lines):
        return "view --format unstable wrote %d records for %d" % (len(un), len(lines))
    for a, b in zip(lines, un):
        try:
            sb = CF.spell(b.split("\t"), segs)
        except KeyError as e:
            return "record %r came back as %r: %r is not a segment" % (a, b, e.args[0])
        if CF.spell(a.split("\t"), segs) != sb:
            return "record %r came back as %r after the round trip" % (a, b)
    return None


def scen_sort(wd, name):
    from . import sortfam as F
    from . import c09

    saved = dict(F.NODES)
    try:
        F.NODES[name] = ("chr1", 0)
        pre = word_prefix(name)
        tags = {"s1": (1, 0), name: (3, 0), "x1": (2, 1)}
        if pre and pre not in tags:
            F.NODES[pre] = ("chr2", 0)
            tags[pre] = (7, 0)
        paths = [">s1>" + name, "<" + name, ">x1", ">" + name + ">x1"]
        nums = [(500, 5, 50), (500, 7, 60), (500, 1, 9), (500, 2, 8)]
        lines, outl, offs, idx, err = F.real_sort(wd, paths, tags, nums)
        if err:
            return "run_sort raised " + err
        v = c09.concrete_content_violation(paths, tags, nums, lines, outl)
        if v:
            return v[1]
        return F.concrete_order_violation(paths, tags, nums, outl)
    finally:
        F.NODES.clear()
        F.NODES.update(saved)


def harness(prop, relpath, functions=None):
    return {"id": "tokens/%s" % relpath.replace("gaftools/", ""), "params": {"kind": "tokens", "file": relpath, "functions": functions, "prop": prop}, "timeout": 300}
