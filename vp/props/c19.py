"""C19 — stat reports numbers that match their definitions."""
import itertools
import os
import re
from fractions import Fraction

from .. import rt, stubs
from ..engine import Harness

ID = "C19"
M = {}

META = {
    "level": "other",
    "functions": {"gaftools.cli.stat": ["run_stat"], "gaftools.gaf": ["GAF.parse_gaf_line", "Read.__init__"]},
    "explanation": "Bounded symbolic execution (CrossHair/z3) of the real stat.run_stat on n<=3 records whose mapping "
    "quality, read start/end and match count are symbolic (float arithmetic replaced by exact rationals with concrete "
    "denominators, DESIGN 3.3); the primary/secondary classification of each record is obtained by running the real "
    "GAF.parse_gaf_line on a literal line carrying tp:A:P/S/I or no tp tag.  Oracle: the definitions of the statement "
    "computed on the multiset of records (so order-invariance follows because every order of every combination is a "
    "harness): total, primary, secondary, reads, aligned bases, mean best identity, mean best map ratio; with --cigar "
    "the number of runs of each CIGAR operation.",
    "bounds": {"quick": "n in {1,2,3}; all 4^n tp combinations for n<=2, 24 of 64 for n=3; 5 read-name sharing patterns; "
                        "read lengths / block lengths from a concrete menu; CIGAR menu of 6",
               "thorough": "all 64 tp combinations x 5 name patterns for n=3"},
    "out": ["IEEE-754 rounding of the two printed averages", "n > 3 records", "the 'Average mapping quality' line (not part of the statement)",
            "the '>50bps' sub-counts"],
    "assumptions": ["float/true division modelled as exact rationals; round() records its exact argument",
                    "GAF reader stub yields Alignment objects whose is_primary comes from the real parser"],
}
META["explanation"] += '  The optional columns of the records come in four layouts (other tag + ds:Z + tp + cg; tp alone or cg alone; cg first; tp first), and the CIGAR handed to stat is the one the real parser extracted from that layout.'
META["explanation"] += "  The read-name column goes through the real parser (names with comments that differ between records of a read, one name starting with '@'); every second harness leaves the last record without a newline."

QL = [10, 7, 4]
BL = [5, 9, 3]
TP = {"P": "\ttp:A:P", "S": "\ttp:A:S", "I": "\ttp:A:I", "p": "\ttp:A:p", "-": ""}
CIGARS = ["10=", "5=1X4=", "3=2I3=2D2=", "60D1=", "4=55I1X1X", "2X2X", ""]
NAMES = [["a", "a", "a"], ["a", "a", "b"], ["a", "b", "a"], ["a", "b", "b"], ["a", "b", "c"]]


def setup():
    import gaftools.cli.stat as S
    import gaftools.gaf as GA

    M.update(S=S, GA=GA)


def harnesses(tier):
    hs = []
    hs.append({"id": "n0/empty", "params": {"tp": [], "names": [], "cigar": False}, "timeout": 60})
    for tp in "PSI-":
        hs.append({"id": "n1/%s" % tp, "params": {"tp": [tp], "names": ["a"], "cigar": False}, "timeout": 120, "twin": tp == "P"})
        for lay in (1, 2, 3):
            hs.append({"id": "n1/%s/layout%d" % (tp, lay), "params": {"tp": [tp], "names": ["a"], "cigar": lay != 2, "cigars": [1], "layout": lay}, "timeout": 120})
    for tps in itertools.product("PS-", repeat=2):
        for names in (["a", "a"], ["a", "b"]):
            lay = (len(hs) % 4)
            hs.append({"id": "n2/%s/%s" % ("".join(tps), "".join(names)), "params": {"tp": list(tps), "names": names, "cigar": False, "layout": lay},
                       "timeout": 200})
    hs.append({"id": "n2/PI/ab", "params": {"tp": ["P", "I"], "names": ["a", "b"], "cigar": False}, "timeout": 200})
    combos = list(itertools.product("PS-I", repeat=3))
    if tier == "quick":
        combos = [c for i, c in enumerate(combos) if i % 3 == 0 or c in (("P", "P", "P"), ("S", "S", "S"), ("-", "-", "-"))]
        for i, c in enumerate(combos):
            hs.append({"id": "n3/%s/%s" % ("".join(c), "".join(NAMES[i % 5])), "params": {"tp": list(c), "names": NAMES[i % 5], "cigar": False, "layout": i % 4},
                       "timeout": 300})
    else:
        for c in combos:
            for nm in NAMES:
                hs.append({"id": "n3/%s/%s" % ("".join(c), "".join(nm)), "params": {"tp": list(c), "names": nm, "cigar": False, "layout": len(hs) % 4}, "timeout": 600})
    for i, cg in enumerate(itertools.combinations(range(len(CIGARS)), 2)):
        hs.append({"id": "cigar/%d-%d" % cg, "params": {"tp": ["P", "-"], "names": ["a", "b"], "cigar": True, "cigars": list(cg), "layout": [0, 2, 3, 1][i % 4]}, "timeout": 200,
                   "twin": i == 0})
    for a, b in ((1, 6), (6, 2), (2, 6)):
        hs.append({"id": "cigar/nocg-%d-%d" % (a, b), "params": {"tp": ["P", "P"], "names": ["a", "b"], "cigar": True, "cigars": [a, b]}, "timeout": 200})
    hs.append({"id": "cigar/nocg3", "params": {"tp": ["P", "S", "-"], "names": ["a", "a", "b"], "cigar": True, "cigars": [4, 1, 6]}, "timeout": 300})
    hs.append({"id": "twice/PP-then-P", "params": {"tp": ["P", "P", "P"], "names": ["a", "b", "a"], "cigar": True, "cigars": [1, 2, 4], "twice": True},
               "timeout": 300})
    hs.append({"id": "cigar/secondary", "params": {"tp": ["S", "P"], "names": ["a", "a"], "cigar": True, "cigars": [2, 4]}, "timeout": 200})
    for i, h in enumerate(hs):
        if i % 2 == 1 and h["params"]["tp"]:
            h["params"]["nonl"] = True  # the file's last line is not newline-terminated
            h["id"] += "/no-final-newline"
    return hs


def opt_fields(tp, cg, layout):
    """the optional columns of a record in one of four layouts (text starting with a tab, or empty)
    0: another tag and a ds:Z tag (documented as dropped) precede tp and cg; 1: as few fields as possible - tp alone, or cg alone when
    there is no tp; 2: cg first, then tp; 3: tp first, another tag, cg last"""
    t = TP[tp]
    c = ("\tcg:Z:" + cg) if cg else ""
    if layout == 1:
        return t if t else c
    if layout == 2:
        return c + t
    if layout == 3:
        return t + "\tNM:i:-1" + c
    return "\tNM:i:-1\tds:Z::2*ag:3" + t + c


def parsed_cigar(cg, tp, layout):
    """the CIGAR the record carries in that layout (layout 1 has no room for it next to a tp tag)"""
    return "" if (layout == 1 and TP[tp]) else cg


def fullname(name, i):
    """the read name column as written in the file (the reader cuts at the first blank): records of one read carry different comments"""
    return {"a": "@a part=%d ch=12" % i, "b": "b", "c": "c#1 runid=%d" % i}[name]
PARSED_NAMES = []


def is_primary_of(tp, cg="5=", layout=0, newline=True, name="x"):
    """classification by the real parser"""
    GA = M["GA"]
    line = name + "\t10\t0\t5\t+\t>s1\t100\t0\t50\t5\t5\t60" + opt_fields(tp, cg, layout) + ("\n" if newline else "")
    e = stubs.env()
    e.files["probe.gaf"] = stubs.MFile("text", [line], None)
    g = GA.GAF("probe.gaf")
    al = next(iter(g.read_file()))
    g.close()
    PARSED_CG.append(al.cigar)
    PARSED_NAMES.append(al.query_name)
    return al.is_primary


CIGAR_OK = [True]
PARSED_CG = []


def oracle(n, names, prim, mq, qs, qe, rm, cigars, frac):
    primary = [i for i in range(n) if prim[i] and mq[i] > 0]
    reads = []
    for i in primary:
        if names[i] not in reads:
            reads.append(names[i])
    tot = 0
    for i in primary:
        tot = tot + rm[i]
    ident = frac(0)
    ratio = frac(0)
    for r in reads:
        bi = None
        br = None
        for i in primary:
            if names[i] == r:
                v = frac(rm[i], BL[i])
                w = frac(qe[i] - qs[i], QL[i])
                if bi is None or bi < v:
                    bi = v
                if br is None or br < w:
                    br = w
        ident = ident + bi
        ratio = ratio + br
    runs = {"D": 0, "I": 0, "X": 0, "=": 0}
    if cigars is not None:
        for i in primary:
            for ln, op in re.findall(r"([0-9]+)([=XIDM])", cigars[i]):
                if op in runs:
                    runs[op] += 1
    return {"total": n, "primary": len(primary), "secondary": n - len(primary), "reads": len(reads), "bases": tot,
            "ident": ident, "ratio": ratio, "nreads": len(reads), "runs": runs}


def build(params):
    tps = params["tp"]
    names = params["names"]
    n = len(tps)
    cig = [CIGARS[i] for i in params["cigars"]] if params.get("cigar") else ["5="] * n
    args = []
    pre = []
    for i in range(n):
        args += [("mq%d" % i, "int"), ("qs%d" % i, "int"), ("qe%d" % i, "int"), ("rm%d" % i, "int")]
        pre.append("0 <= mq%d and 0 <= qs%d <= qe%d <= %d and 0 <= rm%d <= %d" % (i, i, i, QL[i], i, BL[i]))

    def case(*a):
        S, GA = M["S"], M["GA"]
        mq = [a[4 * i] for i in range(n)]
        qs = [a[4 * i + 1] for i in range(n)]
        qe = [a[4 * i + 2] for i in range(n)]
        rm = [a[4 * i + 3] for i in range(n)]
        CIGAR_OK[0] = True
        lay = params.get("layout", 0)
        del PARSED_CG[:]
        del PARSED_NAMES[:]
        # the last record of a file need not end in a newline
        prim = [is_primary_of(t, cig[i], lay, newline=not (params.get("nonl") and i == n - 1), name=fullname(names[i], i)) for i, t in enumerate(tps)]
        names_real = list(PARSED_NAMES)  # the read names as the real parser cut them: this is what stat groups by
        cig_real = list(PARSED_CG)  # what the real parser made of the cg column: this is what stat counts
        cig_seen = [parsed_cigar(cig[i], tps[i], lay) for i in range(n)]
        # the statement's definition: primary iff tp:A is P (or absent, i.e. not marked secondary)
        want_prim = [t in ("P", "p", "-") for t in tps]
        e = stubs.env()
        recs = []
        for i in range(n):
            recs.append((i, (lambda i=i: GA.Alignment(names_real[i], QL[i], qs[i], qe[i], "+", ">s1", 100, 0, 50, rm[i], BL[i], mq[i],
                                                        prim[i], cig_real[i], tags={}))))
        e.gaf_records["x.gaf"] = recs
        if params.get("twice"):
            # an earlier run_stat call in the same process (other file) must not influence this report
            e.gaf_records["w.gaf"] = list(reversed(recs[:2]))
            S.run_stat("w.gaf", cigar_stat=True, output="w.txt")
        S.run_stat("x.gaf", cigar_stat=bool(params.get("cigar")), output="o.txt")
        w = e.files["o.txt"].w
        d = {}
        for r in w.records:
            if len(r) >= 2 and isinstance(r[0], str):
                d[r[0]] = r[1]
        o = oracle(n, names, want_prim, mq, qs, qe, rm, cig_seen if params.get("cigar") else None, rt.Q)
        if not (d.get("Total alignments:") == o["total"]):
            return "total alignments"
        if not (d.get("\tPrimary:") == o["primary"]):
            return "primary count"
        if not (d.get("\tSecondary:") == o["secondary"]):
            return "secondary count"
        if not (d.get("\tPrimary:") + d.get("\tSecondary:") == d.get("Total alignments:")):
            return "total != primary + secondary"
        if not (d.get("Reads with at least one alignment:") == o["reads"]):
            return "reads with at least one alignment"
        if not (rt.sym_int(d.get("Total aligned bases:")) == o["bases"]):
            return "total aligned bases"
        if o["nreads"] > 0:
            iv = d.get("Average highest sequence identity:")
            rv = d.get("Average highest map ratio:")
            if not isinstance(iv, rt.RoundedQ) and not isinstance(iv, float):
                return "identity not printed"
            ivq = iv.q if isinstance(iv, rt.RoundedQ) else rt.Q(0) if iv == 0.0 else None
            rvq = rv.q if isinstance(rv, rt.RoundedQ) else rt.Q(0) if rv == 0.0 else None
            if ivq is None or not (ivq == o["ident"] / o["nreads"]):
                return "average highest sequence identity"
            if rvq is None or not (rvq == o["ratio"] / o["nreads"]):
                return "average highest map ratio"
        if params.get("cigar"):
            line = [r[0] for r in w.records if len(r) == 1 and isinstance(r[0], str) and r[0].startswith("Cigar string statistics")]
            if len(line) != 1:
                return "cigar statistics not printed"
            txt = line[0]
            got = [int(x) for x in re.findall(r": ([0-9]+) \(", txt)]
            want = [o["runs"]["D"], o["runs"]["I"], o["runs"]["X"], o["runs"]["="]]
            if got != want:
                return "cigar run counts %r, definition gives %r" % (got, want)
        return None

    return Harness(args, pre, case, fuel=50)


def replay(params, model, wd):
    import gaftools.cli.stat as S

    tps = params["tp"]
    names = params["names"]
    n = len(tps)
    a = model["args"]
    mq = [a[4 * i] for i in range(n)]
    qs = [a[4 * i + 1] for i in range(n)]
    qe = [a[4 * i + 2] for i in range(n)]
    rm = [a[4 * i + 3] for i in range(n)]
    cig = [CIGARS[i] for i in params["cigars"]] if params.get("cigar") else ["5="] * n
    lay = params.get("layout", 0)
    lines = []
    for i in range(n):
        lines.append("%s\t%d\t%d\t%d\t+\t>s1\t100\t0\t50\t%d\t%d\t%d%s" % (fullname(names[i], i), QL[i], qs[i], qe[i], rm[i], BL[i], mq[i], opt_fields(tps[i], cig[i], lay)))
    cig = [parsed_cigar(cig[i], tps[i], lay) for i in range(n)]
    gaf = os.path.join(wd, "x.gaf")
    text = "".join(l + "\n" for l in lines)
    open(gaf, "w").write(text[:-1] if params.get("nonl") else text)
    out = os.path.join(wd, "o.txt")
    err = None
    try:
        if params.get("twice"):
            w = os.path.join(wd, "w.gaf")
            open(w, "w").write("".join(l + "\n" for l in reversed(lines[:2])))
            S.run_stat(w, cigar_stat=True, output=os.path.join(wd, "w.txt"))
        S.run_stat(gaf, cigar_stat=bool(params.get("cigar")), output=out)
    except BaseException as e:  # noqa
        err = "%s: %s" % (type(e).__name__, e)
    import gc

    gc.collect()
    txt = open(out).read() if os.path.exists(out) else ""
    want_prim = [t in ("P", "p", "-") for t in tps]
    o = oracle(n, names, want_prim, mq, qs, qe, rm, cig if params.get("cigar") else None, Fraction)
    files = {"gaf": lines, "report": txt}
    if err:
        kind = err.split(":")[0]
        return {"reproduced": True, "key": "C19:exception:%s:%s" % (kind, "no-primary" if o["primary"] == 0 else "some-primary"),
                "what": "run_stat raised %s on %r" % (err, lines), "files": files}

    def num(label):
        m = re.search(re.escape(label) + r"\s*([-0-9.]+)", txt)
        return m.group(1) if m else None

    checks = [("Total alignments:", o["total"], "total"), ("Primary:", o["primary"], "primary"), ("Secondary:", o["secondary"], "secondary"),
              ("Reads with at least one alignment:", o["reads"], "reads"), ("Total aligned bases:", o["bases"], "bases")]
    for label, want, key in checks:
        got = num(label)
        if got is None or int(float(got)) != want:
            return {"reproduced": True, "key": "C19:" + key, "what": "%s printed %s, definition gives %s" % (label, got, want), "files": files}
    if o["nreads"]:
        for label, val, key in (("Average highest sequence identity:", o["ident"], "identity"), ("Average highest map ratio:", o["ratio"], "ratio")):
            got = num(label)
            want = float(val / o["nreads"])
            if got is None or abs(float(got) - want) > 0.00051:
                return {"reproduced": True, "key": "C19:" + key, "what": "%s printed %s, definition gives %.4f" % (label, got, want), "files": files}
    if params.get("cigar"):
        got = [int(x) for x in re.findall(r": ([0-9]+) \(", txt)]
        want = [o["runs"]["D"], o["runs"]["I"], o["runs"]["X"], o["runs"]["="]]
        if got != want:
            return {"reproduced": True, "key": "C19:cigar", "what": "cigar run counts %r, definition gives %r" % (got, want), "files": files}
    return {"reproduced": False, "detail": "report matches the definitions", "report": txt}
