"""C01 — coordinate conversion designates the same aligned locus."""
import itertools
import json

from . import convfam as F
from ..engine import Harness, Direct
from . import tokfam

ID = "C01"
setup = F.setup

META = {
    "level": "other",
    "functions": {
        "gaftools.conversion": ["to_stable", "to_unstable", "merge_nodes", "StableNode.to_string", "stable_to_unstable",
                                "unstable_to_stable"],
        "gaftools.utils": ["search_intervals", "reverse_cigar"],
        "gaftools.cli.view": ["run"],
        "gaftools.gfa": ["GFA.get_path", "GFA.get_contig_length", "GFA.list_is_path"],
        "gaftools.gaf": ["Alignment.detect_path_format"],
    },
    "explanation": "Bounded symbolic execution (CrossHair/z3) of the real view.run -> to_stable -> to_unstable chain. "
    "Layout (rank-0 contig chr1 tiled by 3 segments, haplotype contig hap-A.1 with 2 segments separated by a symbolic gap "
    ">= 0, hap_B#2, second rank-0 contig chr2) has every length and offset symbolic and unbounded; the walk is an "
    "enumerated sequence of oriented segments; path start/end are symbolic.  Oracle: one more symbolic integer k picks "
    "the k-th aligned base; an independent 10-line function maps (record,k) to (contig, coordinate, orientation) and the "
    "assertion is base(u,k)=base(stable,k)=base(unstable',k), aligned length unchanged, path length = total of the "
    "emitted intervals / contig length, strand '-' only for a bare contig, CIGAR reversed iff strand flipped. Since "
    "every stable base lies in exactly one segment this is equivalent to 'spelling path[start:end] gives the same "
    "string' for every assignment of node sequences.  Lemma harnesses: search_intervals window, merge_nodes.  Stable "
    "inputs not produced by gaftools (runs of whole segments, unmerged, either orientation; bare contig on either "
    "strand) are converted directly.",
    "bounds": {
        "quick": "all walks of <=2 oriented steps over 6 segments (156) + curated 3-5 step walks; search_intervals n<=4",
        "thorough": "all walks of <=3 steps over 6 segments (1884) + all 4-step walks over s0,s1,a0 + curated; search_intervals n<=6",
    },
    "out": ["walks longer than the bound", "zero-length alignments", "'-'-strand input records in split-contig form",
            "contig names containing ':' '>' '<'", "stable intervals that cut through a segment"],
    "assumptions": ["graph object filled as read_graph fills it (tags as decimal renderings)", "GAF reader stub yields "
                    "Alignment objects (parse_gaf_line is C16)", "StageTimer/logger no-ops", "print/open write to the model FS"],
}
META["explanation"] += '  tokens/conversion.py: every re.split/re.findall applied to a path column in conversion.py is decided as a language by z3 against the language of oriented steps (vp/props/tokfam.py).'

LEN = {"s0": "l0", "s1": "l1", "s2": "l2", "a0": "a0", "a1": "a1", "b0": "b0", "c0": "c0", "c1": "c1"}
SIX = ["s0", "s1", "s2", "a0", "a1", "b0"]

CURATED = [
    ">s0>s1>s2", "<s2<s1<s0", ">s0>s1>a0", ">a0>s1>s2", ">s0>a0>s1", ">a0>a1>s0", "<a1<a0<s0", ">s0>a0>a1>s2",
    ">s0<s1>s2", ">s0>s1>s0", ">s0>s1<s1<s0", "<s2<s1>a0", ">b0>s0>s1>s2", ">s0>s1>s2>b0", "<b0<s2<s1<s0",
    ">c0>c1", "<c1<c0", ">s2>c0", "<c0<s2", ">c0>c1>s0", ">s0>s1>s2>a0>a1", "<a1<a0<s2<s1<s0", ">s1>s2<s2<s1",
    ">a0>s0>a1", "<s1<s0>s0>s1", ">s0>a0<a0>s1", ">s1>s2>s0>s1", "<s2>s2", ">a1>a0", "<a0<a1", ">s2>s1>s0",
    ">s0>s2", "<s2<s0", ">s0>s1>s2>c0>c1", "<s1<s0<a1<a0",
]


def parse_walk(w):
    out = []
    i = 0
    while i < len(w):
        out.append((w[i], w[i + 1:i + 3]))
        i += 3
    return out


def walk_str(walk):
    return "".join(o + n for o, n in walk)


def all_walks(nodes, maxlen):
    steps = [(o, n) for n in nodes for o in "><"]
    for ln in range(1, maxlen + 1):
        for w in itertools.product(steps, repeat=ln):
            yield list(w)


def harnesses(tier):
    hs = []
    seen = set()

    def add(w, timeout, twin=False):
        ws = walk_str(w)
        if ws in seen:
            return
        seen.add(ws)
        hs.append({"id": "chain/" + ws, "params": {"kind": "chain", "walk": ws}, "timeout": timeout, "twin": twin})

    for w in all_walks(SIX, 2):
        add(w, 120, twin=walk_str(w) in (">s0>s1", "<a1<a0"))
    # the same walks over haplotype segments with the S lines of the graph in reverse order (file order != SO order)
    for w in list(all_walks(["a0", "a1", "s1"], 2)) + [parse_walk(x) for x in (">s0>a0>a1>s2", "<a1<a0<s0", ">a1>a0", ">s0>s1>s2", "<c1<c0")]:
        ws = walk_str(w)
        if ("rev:" + ws) not in seen and any(n in ("a0", "a1", "c0", "c1", "s2") for _, n in w):
            seen.add("rev:" + ws)
            hs.append({"id": "chain-revorder/" + ws, "params": {"kind": "chain", "walk": ws, "revorder": True}, "timeout": 200})
    for ws in CURATED:
        add(parse_walk(ws), 300)
    if tier == "thorough":
        for w in all_walks(SIX, 3):
            add(w, 300)
        for w in all_walks(["s0", "s1", "a0"], 4):
            add(w, 400)
    # stable records given directly
    direct = [
        {"bare": "chr1", "strand": "+"}, {"bare": "chr1", "strand": "-"}, {"bare": "chr2", "strand": "-"},
        {"iv": [[">", "chr1", 0, 0]]}, {"iv": [["<", "chr1", 1, 2]]}, {"iv": [[">", "chr1", 0, 0], [">", "chr1", 1, 2]]},
        {"iv": [["<", "chr1", 2, 2], ["<", "chr1", 0, 1]]}, {"iv": [[">", "hap-A.1", 0, 0]]}, {"iv": [[">", "hap-A.1", 0, 1]]},
        {"iv": [["<", "hap-A.1", 1, 1], [">", "chr1", 1, 1]]}, {"iv": [[">", "chr1", 0, 1], [">", "hap-A.1", 0, 0], [">", "chr1", 2, 2]]},
        {"iv": [[">", "hap_B#2", 0, 0], ["<", "hap-A.1", 0, 0]]}, {"iv": [[">", "chr1", 0, 2]]}, {"iv": [["<", "chr1", 0, 2]]},
    ]
    for d in direct:
        hs.append({"id": "direct/" + json.dumps(d, separators=(",", ":")), "params": dict(d, kind="direct"), "timeout": 300,
                   "twin": d.get("bare") == "chr1" and d.get("strand") == "-"})
    for n in ((2, 3, 4) if tier == "quick" else (2, 3, 4, 5, 6)):
        hs.append({"id": "lemma/search_intervals/%d" % n, "params": {"kind": "search", "n": n}, "timeout": 300 if n < 5 else 1200})
    hs.append({"id": "lemma/merge_nodes", "params": {"kind": "merge"}, "timeout": 120})
    hs.append(tokfam.harness("C01", "gaftools/conversion.py"))
    return hs


def chain_pre(walk):
    tot = " + ".join(LEN[n] for _, n in walk)
    return F.LAYOUT_PRE + ["0 <= ps < pe <= %s" % tot, "0 <= k < pe - ps"]


def build(params, which="C01"):
    if params.get("kind") == "tokens":
        return Direct(lambda: tokfam.run(params))
    kind = params["kind"]
    if kind == "chain":
        walk = parse_walk(params["walk"])
        args = [(a, "int") for a in F.LAYOUT_ARGS + ["ps", "pe", "k"]]
        pre = chain_pre(walk)
        cols = (100, 0, 100, 5, 20, 60)

        def case(*a):
            L = a[:11]
            ps, pe, k = a[11:14]
            F.GRAPH_ORDER[0] = list(reversed(F.ORDER)) if params.get("revorder") else None
            return F.convert_chain(walk, L, ps, pe, k, cols, which)

        return Harness(args, pre, case, fuel=50)
    if kind == "direct":
        args = [(a, "int") for a in F.LAYOUT_ARGS + ["ps", "pe", "k"]]
        pre = F.LAYOUT_PRE + ["0 <= ps < pe", "0 <= k < pe - ps"]
        iv = [tuple(x) for x in params.get("iv", [])]

        def case(*a):
            L = a[:11]
            ps, pe, k = a[11:14]
            return F.stable_direct(iv, params.get("bare"), params.get("strand", "+"), L, ps, pe, k)

        return Harness(args, pre, case, fuel=50)
    if kind == "search":
        n = params["n"]
        args = [("so0", "int")] + [("ln%d" % i, "int") for i in range(n)] + [("gp%d" % i, "int") for i in range(1, n)] + [
            ("qs", "int"), ("qe", "int")]
        pre = ["so0 >= 0", " and ".join("ln%d >= 1" % i for i in range(n))]
        if n > 1:
            pre.append(" and ".join("gp%d >= 0" % i for i in range(1, n)))
        # callers only pass intervals of alignments that lie on the contig: the query starts before the
        # end of the last segment (a query beyond the contig end is not a valid record)
        pre.append("0 <= qs < qe and qs < so0 + " + " + ".join(["ln%d" % i for i in range(n)] + ["gp%d" % i for i in range(1, n)]))

        def case(*a):
            import gaftools.utils as U

            so0 = a[0]
            lns = a[1:1 + n]
            gps = (0,) + tuple(a[1 + n:2 * n])
            qs, qe = a[2 * n], a[2 * n + 1]
            ivs = []
            pos = so0
            nodes = []
            for i in range(n):
                pos = pos + gps[i]
                ivs.append((pos, pos + lns[i]))
                nodes.append(F.mknode("n%d" % i, "c", pos, lns[i], 0))
                pos = pos + lns[i]
            start, end = U.search_intervals(nodes, qs, qe, 0, len(nodes))
            over = [i for i in range(n) if ivs[i][0] < qe and qs < ivs[i][1]]
            if (start, end) == (-1, -1):
                return "search_intervals found nothing although an interval overlaps" if over else None
            if not (0 <= start and start <= end):
                return "bad window"
            # the callers slice [start:end+1]; every overlapping interval must be inside the window
            for i in over:
                if not (start <= i <= end):
                    return "overlapping interval outside the returned window"
            return None

        return Harness(args, pre, case, fuel=50)
    if kind == "merge":
        args = [(x, "int") for x in ("s1", "e1", "s2", "e2", "same", "o1", "o2")]
        pre = ["0 <= s1 < e1 and 0 <= s2 < e2 and 0 <= same <= 1 and 0 <= o1 <= 1 and 0 <= o2 <= 1"]

        def case(s1, e1, s2, e2, same, o1, o2):
            CV = F.M["CV"]
            n1 = CV.StableNode("c", s1, e1)
            n2 = CV.StableNode("c" if same else "d", s2, e2)
            r = CV.merge_nodes(n1, n2, ">" if o1 else "<", ">" if o2 else "<")
            should = bool(same) and o1 == o2 and ((o1 == 1 and e1 == s2) or (o1 == 0 and s1 == e2))
            if not should:
                return None if r is False else "merged intervals that do not touch in walk order"
            if r is False:
                return "did not merge touching intervals"
            node, o = r
            if o != (">" if o1 else "<") or node.contig_id != "c":
                return "merged orientation/contig wrong"
            if not (node.start == min(s1, s2) and node.end == max(e1, e2)):
                return "merged interval does not cover both"
            return None

        return Harness(args, pre, case)
    raise AssertionError(kind)


# ------------------------------------------------------------------------------------------


def replay(params, model, wd, which="C01"):
    if params.get("kind") == "tokens":
        return tokfam.replay(params, model, wd)
    kind = params["kind"]
    a = model["args"]
    if kind in ("search", "merge"):
        return replay_lemma(params, a)
    L = a[:11]
    ps, pe, k = a[11:14]
    segs = F.layout(L)
    if kind == "chain":
        walk = parse_walk(params["walk"])
        path = params["walk"]
        total = sum(segs[n][2] for _, n in walk)
        strand = "+"
        walks = [walk]
    else:
        walks = []
        strand = params.get("strand", "+")
        if params.get("bare"):
            path = params["bare"]
            total = sum(segs[n][2] for n in F.ORDER if segs[n][0] == path)
        else:
            bycontig = {}
            for nid in F.ORDER:
                bycontig.setdefault(segs[nid][0], []).append(nid)
            path = ""
            total = 0
            for o, c, i, j in params["iv"]:
                ids = bycontig[c][i:j + 1]
                s0, e0 = segs[ids[0]][1], segs[ids[-1]][1] + segs[ids[-1]][2]
                path += "%s%s:%d-%d" % (o, c, s0, e0)
                total += e0 - s0
    gfa, seqs = F.write_rgfa(wd, segs, walks, order=(list(reversed(F.ORDER)) if params.get("revorder") else None))
    tags = "\t".join(k_ + v for k_, v in F.TAGS)
    line = "r\t100\t0\t100\t%s\t%s\t%d\t%d\t%d\t5\t20\t60\t%s" % (strand, path, total, ps, pe, tags)
    want = F.spell(line.split("\t"), segs, seqs)
    stages = [("stable", "unstable")] if kind == "chain" else [("unstable",)]
    cur = line
    cur_strand = strand
    cur_cig = F.CIG
    clen = {}
    for nid, (sn, so, ln, sr) in segs.items():
        if sr == 0:
            clen[sn] = clen.get(sn, 0) + ln
    for fmt in stages[0]:
        out, err = F.real_view(wd, gfa, [cur], fmt, fmt)
        if err or len(out) != 1:
            return {"reproduced": True, "key": "%s:%s:%s" % (which, fmt, "exception" if err else "count"),
                    "what": "view --format %s on %r: %s, %d output lines" % (fmt, cur, err, len(out)),
                    "files": {"gfa_segments": {k_: list(v) for k_, v in segs.items()}, "gaf": cur}}
        f = out[0].split("\t")
        try:
            got = F.spell(f, segs, seqs)
        except Exception as e:
            return {"reproduced": True, "key": "%s:%s:unspellable" % (which, fmt), "what": "output record cannot be spelled: %r (%s)" % (out[0], e)}
        problems = []
        if got != want:
            problems.append(("locus", "designates bases %r..., the input record designates %r..." % (got[:3], want[:3])))
        pl = int(f[6])
        import re

        tk = re.findall(r"([<>])([^<>]+)", f[5])
        if not tk:
            if clen.get(f[5]) != pl:
                problems.append(("pathlen", "bare contig %s with path length %d (contig length %s)" % (f[5], pl, clen.get(f[5]))))
        else:
            tot = 0
            for o, t in tk:
                if ":" in t:
                    x, y = t.split(":")[1].split("-")
                    tot += int(y) - int(x)
                else:
                    tot += segs[t][2]
            if tot != pl:
                problems.append(("pathlen", "path length %d but the path totals %d" % (pl, tot)))
            if f[4] != "+":
                problems.append(("strand", "multi-step path with '-' strand"))
        cg = [x[5:] for x in f[12:] if x.startswith("cg:Z:")]
        flipped = f[4] != cur_strand
        want_cig = (F.REV if cur_cig == F.CIG else F.CIG) if flipped else cur_cig
        if cg != [want_cig]:
            problems.append(("cigar", "cigar %r, expected %r (strand %s -> %s)" % (cg, want_cig, cur_strand, f[4])))
        if which == "C02":
            problems = []
            inp = cur.split("\t")
            for i in (0, 1, 2, 3, 9, 10, 11):
                if f[i] != inp[i]:
                    problems.append(("column", "column %d changed: %r -> %r" % (i + 1, inp[i], f[i])))
            tin = [x for x in inp[12:] if not x.startswith("cg:Z:")]
            tout = [x for x in f[12:] if not x.startswith("cg:Z:")]
            if tin != tout or len(f) != len(inp):
                problems.append(("tags", "optional fields changed: %r -> %r" % (inp[12:], f[12:])))
        if problems:
            return {"reproduced": True, "key": "%s:%s:%s" % (which, fmt, problems[0][0]),
                    "what": "view --format %s on %r gives %r: %s" % (fmt, cur, out[0], problems[0][1]),
                    "files": {"gfa_segments": {k_: list(v) for k_, v in segs.items()}, "gaf": cur, "output": out[0]}}
        cur = out[0]
        cur_strand = f[4]
        cur_cig = cg[0]
    if which == "C02" and kind == "chain":
        first = segs[walk[0][1]][2]
        last = segs[walk[-1][1]][2]
        if ps < first and pe > total - last:
            fi, fo = line.split("\t"), cur.split("\t")
            if fi[:12] != fo[:12] or fi[12:] != fo[12:]:
                return {"reproduced": True, "key": "C02:roundtrip", "what": "canonical record %r came back as %r" % (line, cur),
                        "files": {"gfa_segments": {k_: list(v) for k_, v in segs.items()}}}
    return {"reproduced": False, "detail": "real view output designates the same bases", "final": cur}


def replay_lemma(params, a):
    import gaftools.utils as U
    import gaftools.conversion as CV
    import gaftools.gfa as G

    if params["kind"] == "merge":
        s1, e1, s2, e2, same, o1, o2 = a
        r = CV.merge_nodes(CV.StableNode("c", s1, e1), CV.StableNode("c" if same else "d", s2, e2), ">" if o1 else "<", ">" if o2 else "<")
        should = bool(same) and o1 == o2 and ((o1 == 1 and e1 == s2) or (o1 == 0 and s1 == e2))
        bad = (r is False) == should or (r is not False and not (r[0].start == min(s1, s2) and r[0].end == max(e1, e2)))
        return {"reproduced": bool(bad), "key": "C01:merge_nodes", "what": "merge_nodes%r -> %r" % (tuple(a), r), "level": "unit"}
    n = params["n"]
    so0 = a[0]
    lns = a[1:1 + n]
    gps = [0] + list(a[1 + n:2 * n])
    qs, qe = a[2 * n], a[2 * n + 1]
    nodes = []
    ivs = []
    pos = so0
    for i in range(n):
        pos += gps[i]
        nd = G.Node("n%d" % i)
        nd.tags = {"SO": ("i", str(pos)), "LN": ("i", str(lns[i]))}
        nodes.append(nd)
        ivs.append((pos, pos + lns[i]))
        pos += lns[i]
    try:
        st, en = U.search_intervals(nodes, qs, qe, 0, len(nodes))
    except Exception as e:
        return {"reproduced": True, "key": "C01:search_intervals:exception", "what": repr(e), "level": "unit"}
    over = [i for i in range(n) if ivs[i][0] < qe and qs < ivs[i][1]]
    bad = ((st, en) == (-1, -1) and over) or ((st, en) != (-1, -1) and any(not (st <= i <= en) for i in over))
    return {"reproduced": bool(bad), "key": "C01:search_intervals", "level": "unit",
            "what": "search_intervals over %r for [%d,%d) -> (%d,%d), overlapping %r" % (ivs, qs, qe, st, en, over)}
