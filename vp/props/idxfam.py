"""Shared machinery for C03 / C04: real index.run and view.run on the model file system with a
concrete rGFA layout (index keys must be hashable), symbolic record offsets and numeric columns."""
import os

from .. import rt, stubs

M = {}


def setup():
    import gaftools.cli.index as I
    import gaftools.cli.view as V
    import gaftools.gaf as GA
    import gaftools.gfa as G
    import gaftools.cli as C

    M.update(I=I, V=V, GA=GA, G=G, C=C)


# id -> (contig, SO, LN, SR).  hap-A.1's two segments are separated on the haplotype contig.
LAY = {
    "s0": ("chr1", 0, 10, 0), "s1": ("chr1", 10, 15, 0), "s2": ("chr1", 25, 5, 0),
    "a0": ("hap-A.1", 100, 4, 1), "a1": ("hap-A.1", 110, 10, 1),
    "b0": ("hap_B#2", 7, 2, 2),
    "c9": ("HG002:hap1:ctg7", 0, 6, 3),  # a contig name with colons (a Z value may hold them); only unstable records walk over it
}
LINKS = [("s0", "+", "s1", "+"), ("s1", "+", "s2", "+"), ("s0", "+", "a0", "+"), ("a0", "+", "s1", "+"), ("s1", "+", "a1", "+"),
         ("a1", "+", "s2", "+"), ("s1", "+", "b0", "-"), ("b0", "-", "s2", "+"), ("s1", "+", "s0", "+"), ("s1", "+", "c9", "+"), ("c9", "+", "s2", "+")]
CIG = "5=1X4="
TAGS = [("tp:A:", "P"), ("cg:Z:", CIG), ("NM:i:", "1")]


# external segment names (the ids above are internal): one plain, the others with characters outside [A-Za-z0-9_], two of them
# extending the name of another segment.  No ':' - a ':' in the path column is how gaftools tells stable from unstable paths.
EXT = {"a0": "s1-alt", "a1": "s1.2", "b0": "b#0|x"}


def nm(n):
    return EXT.get(n, n)


def rname(i):
    """read names: every second one carries a GraphAligner style comment after a blank"""
    # ... and that comment holds characters that take more than one byte in the file (offsets are bytes, not characters)
    return "r%d" % i if i % 2 == 0 else "r%d runid=7 ch=%d caf\u00e9\u4e2d" % (i, i)


def cut_name(line):
    """the documented exception: the read name is cut at its first blank when a record is parsed and printed again"""
    f = line.split("\t")
    return "\t".join([f[0].split(" ")[0]] + f[1:])


def ptext(w):
    return "".join(o + nm(n) for o, n in parse_walk(w))


REAL_READER = [False]  # True: the GAF is read by the real gaftools.gaf.GAF class from the model file, not by the reader stub
NONL = [False]  # the GAF's last line is not newline-terminated (plain text files only)
GFA_ORDER = [None]  # S-line order of the model graph (None = SO order within each contig)


def gfa_lines(order=None):
    out = []
    for nid in (order or GFA_ORDER[0] or list(LAY)):
        sn, so, ln, sr = LAY[nid]
        out.append("S\t%s\t*\tLN:i:%d\tSN:Z:%s\tSO:i:%d\tSR:i:%d\n" % (nm(nid), ln, sn, so, sr))
    for u, du, v, dv in LINKS:
        out.append("L\t%s\t%s\t%s\t%s\t0M\n" % (nm(u), du, nm(v), dv))
    return out


def parse_walk(w):
    return [(w[i], w[i + 1:i + 3]) for i in range(0, len(w), 3)]


def walk_len(walk):
    return sum(LAY[n][2] for _, n in walk)


def stable_of(walk, merged=True):
    """stable interval text for an unstable walk (what a stable GAF of the same alignment holds)"""
    ivs = []
    for o, n in walk:
        sn, so, ln, sr = LAY[n]
        cur = [o, sn, so, so + ln]
        if merged and ivs and ivs[-1][0] == o and ivs[-1][1] == sn:
            p = ivs[-1]
            if o == ">" and p[3] == cur[2]:
                p[3] = cur[3]
                continue
            if o == "<" and p[2] == cur[3]:
                p[2] = cur[2]
                continue
        ivs.append(cur)
    return "".join("%s%s:%d-%d" % tuple(iv) for iv in ivs)


def record_line(i, path, plen, ps, pe, strand="+"):
    tags = "".join("\t" + k + v for k, v in TAGS)
    return rt.vp_fmt_("%s\t50\t0\t10\t%s\t%s\t%d\t%d\t%d\t9\t10\t60" + tags + "\n", (rname(i), strand, path, plen, ps, pe))


def record_alignment(i, path, plen, ps, pe, strand="+"):
    GA = M["GA"]
    return GA.Alignment("r%d" % i, 50, 0, 10, strand, path, plen, ps, pe, 9, 10, 60, True, CIG, tags={k: v for k, v in TAGS})


def records_for(form, walks, nums):
    """list of (path text, plen, ps, pe, expected node set or None for bare)"""
    out = []
    for w, (ps, pe) in zip(walks, nums):
        if form == "unstable":
            walk = parse_walk(w)
            out.append((ptext(w), walk_len(walk), ps, pe, [n for _, n in walk]))
        elif form in ("stable", "stable-unmerged"):
            walk = parse_walk(w)
            out.append((stable_of(walk, merged=(form == "stable")), walk_len(walk), ps, pe, [n for _, n in walk]))
        else:
            # bare contig: w is the contig name; nodes under [ps, pe)
            total = sum(v[2] for v in LAY.values() if v[0] == w)
            out.append((w, total, ps, pe, None))
    return out


def nodes_under(contig, ps, pe):
    return [n for n, (sn, so, ln, sr) in LAY.items() if sn == contig and so < pe and ps < so + ln]


def install_files(recs, cookies, gz, gfa_gz=False):
    e = stubs.env()
    lines = [record_line(i, *r[:4]) for i, r in enumerate(recs)]
    flines = lines
    if NONL[0] and not gz and lines:
        flines = lines[:-1] + [lines[-1].rstrip("\n")]
    e.files["in.gaf"] = stubs.MFile("bgzf" if gz else "text", flines, cookies)
    if not REAL_READER[0]:
        e.gaf_records["in.gaf"] = [(cookies[i], (lambda i=i, r=r: record_alignment(i, *r[:4]))) for i, r in enumerate(recs)]
    name = "g.gfa.gz" if gfa_gz else "g.gfa"
    e.files[name] = stubs.MFile("gzip" if gfa_gz else "text", gfa_lines(), None)
    return lines, name


def run_index(recs, cookies, gz=False, default_path=False):
    I = M["I"]
    lines, gname = install_files(recs, cookies, gz)
    if default_path:
        I.run("in.gaf", gname)  # the index goes next to the GAF: <GAF>.gvi
    else:
        I.run("in.gaf", gname, output="in.gaf.gvi")
    return stubs.env().pickles.get("in.gaf.gvi"), lines


def expected_nodes(rec):
    path, plen, ps, pe, nodes = rec
    if nodes is not None:
        return nodes
    return nodes_under(path, ps, pe)


def check_index(idx, recs, cookies):
    if not isinstance(idx, dict):
        return "no index dict was pickled"
    if idx.get("ref_contig") != ["chr1"]:
        return "ref_contig entry is %r" % (idx.get("ref_contig"),)
    exp = {}
    for i, r in enumerate(recs):
        for n in expected_nodes(r):
            exp.setdefault(n, []).append(i)
    for n, (sn, so, ln, sr) in LAY.items():
        key = (nm(n), sn, so, so + ln)
        if n not in exp:
            if key in idx:
                return "node %s has an index entry but no record traverses it" % n
            continue
        if key not in idx:
            return "aligned node %s has no entry keyed (id, contig, start, end)" % n
        got = idx[key]
        want = [cookies[i] for i in exp[n]]
        for c in got:
            if not any(c == w for w in want):
                return "entry of %s lists an offset of a record that does not traverse it" % n
        for w in want:
            if not any(c == w for c in got):
                return "entry of %s misses the offset of a record that traverses it" % n
    good = {(nm(n), sn, so, so + ln) for n, (sn, so, ln, sr) in LAY.items()}
    extra = [k for k in idx.keys() if k != "ref_contig" and (not isinstance(k, tuple) or k not in good)]
    if extra:
        return "unexpected index keys %r" % (extra,)
    return None


# ------------------------------------------------------------------------------------------
# real files for replay


def write_real(wd, recs, gz=False):
    import pysam

    gfa = os.path.join(wd, "g.gfa")
    open(gfa, "w").write("".join(gfa_lines()))
    lines = []
    for i, r in enumerate(recs):
        tags = "".join("\t" + k + v for k, v in TAGS)
        lines.append("%s\t50\t0\t10\t+\t%s\t%d\t%d\t%d\t9\t10\t60%s" % (rname(i), r[0], r[1], r[2], r[3], tags))
    gaf = os.path.join(wd, "in.gaf")
    text = "".join(l + "\n" for l in lines)
    open(gaf, "w", encoding="utf-8").write(text[:-1] if (NONL[0] and not gz) else text)
    if gz:
        pysam.tabix_compress(gaf, gaf + ".gz", force=True)
        gaf += ".gz"
    return gfa, gaf, lines


def real_offsets(gaf):
    from pysam import libcbgzf

    gz = gaf.endswith(".gz")
    fh = libcbgzf.BGZFile(gaf, "rb") if gz else open(gaf, "r", encoding="utf-8")
    offs = []
    while True:
        o = fh.tell()
        l = fh.readline()
        if not l:
            break
        offs.append(o)
    fh.close()
    return offs


def big_bgzf_index(wd, recs, rep=1500):
    """the same records repeated `rep` times through bgzip (several BGZF blocks): every offset listed for a node must resolve,
    through the real BGZF handle, to a record that traverses the node, and every traversing record must be listed.
    Returns None or a description of the first problem."""
    import pickle
    import pysam
    import gaftools.cli.index as I
    from pysam import libcbgzf

    gfa = os.path.join(wd, "big.gfa")
    open(gfa, "w").write("".join(gfa_lines()))
    gaf = os.path.join(wd, "big.gaf")
    tags = "".join("\t" + k + v for k, v in TAGS)
    with open(gaf, "w") as fh:
        for j in range(rep):
            for i, r in enumerate(recs):
                fh.write("r%dx%d comment\t50\t0\t10\t+\t%s\t%d\t%d\t%d\t9\t10\t60%s\tzz:Z:%s\n" % (i, j, r[0], r[1], r[2], r[3], tags, "pad" * 10))
    pysam.tabix_compress(gaf, gaf + ".gz", force=True)
    out = os.path.join(wd, "big.gvi")
    try:
        I.run(gaf + ".gz", gfa, output=out)
    except BaseException as e:  # noqa
        return "gaftools index on a %d-record BGZF file raised %s: %s" % (rep * len(recs), type(e).__name__, e)
    idx = pickle.load(open(out, "rb"))
    fh = libcbgzf.BGZFile(gaf + ".gz", "rb")
    expected = {}
    for i, r in enumerate(recs):
        for n in expected_nodes(r):
            expected.setdefault(nm(n), set()).add(i)
    for k, offs in idx.items():
        if k == "ref_contig":
            continue
        seen = {}
        for o in offs[:40] + offs[-40:]:
            try:
                fh.seek(o)
                line = fh.readline().decode()
            except Exception as e:
                return "offset %r listed for node %s cannot be resolved in the multi-block BGZF file: %r" % (o, k[0], e)
            name = line.split("\t")[0].split(" ")[0]
            if not (name.startswith("r") and "x" in name):
                return "offset %r listed for node %s does not point at the start of a record (%r...)" % (o, k[0], line[:30])
            i = int(name[1:name.index("x")])
            if i not in expected.get(k[0], ()):
                return "offset %r listed for node %s resolves to record %s which does not traverse it" % (o, k[0], name)
        want = len(expected.get(k[0], ())) * rep
        if len(set(offs)) < want:
            return "node %s lists %d distinct offsets, %d records traverse it" % (k[0], len(set(offs)), want)
    fh.close()
    return None


def big_bgzf_view(wd, recs, query, rep=1500):
    """the same records repeated `rep` times through bgzip (several BGZF blocks): index + view -n on the compressed file must select
    exactly the copies of the records that traverse a queried node, in file order.  Returns None or a description of the problem."""
    import gc
    import pysam
    import gaftools.cli.index as I
    import gaftools.cli.view as V
    from gaftools.cli import CommandLineError

    gfa = os.path.join(wd, "bigv.gfa")
    open(gfa, "w").write("".join(gfa_lines()))
    gaf = os.path.join(wd, "bigv.gaf")
    tags = "".join("\t" + k + v for k, v in TAGS)
    sel = [i for i, r in enumerate(recs) if any(n in query for n in expected_nodes(r))]
    with open(gaf, "w") as fh:
        for j in range(rep):
            for i, r in enumerate(recs):
                fh.write("r%dx%d\t50\t0\t10\t+\t%s\t%d\t%d\t%d\t9\t10\t60%s\tzz:Z:%s\n" % (i, j, r[0], r[1], r[2], r[3], tags, "pad" * 10))
    pysam.tabix_compress(gaf, gaf + ".gz", force=True)
    out = os.path.join(wd, "bigv.out")
    try:
        I.run(gaf + ".gz", gfa)
        V.run(gaf + ".gz", output=out, nodes=[nm(q) for q in query])
    except CommandLineError:
        return None if not sel else "view -n on a %d-record BGZF file reports nothing for %r" % (rep * len(recs), query)
    except BaseException as e:  # noqa
        return "index + view -n %r on a %d-record BGZF file (several blocks) raised %s: %s" % (query, rep * len(recs), type(e).__name__, e)
    gc.collect()
    got = [l.split("\t")[0] for l in open(out).read().splitlines()]
    want = ["r%dx%d" % (i, j) for j in range(rep) for i in sel]
    if got != want:
        return "view -n %r on a %d-record BGZF file (several blocks) printed %d records (first %r), expected %d (first %r)" % (
            query, rep * len(recs), len(got), got[:3], len(want), want[:3])
    return None
