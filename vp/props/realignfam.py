"""Shared machinery for C11 / C13 (and C12): the real realign_gaf / wfa_alignment under a lazy
observational model of multiprocessing (DESIGN 3.4)."""
import os
import queue as real_queue

from .. import rt, stubs

M = {}


def setup():
    import gaftools.cli.realign as R
    import gaftools.gaf as GA

    M.update(R=R, GA=GA)


class Scripted:
    """source of schedule choices: symbolic (fresh ints decided by the solver) or a recorded list"""

    def __init__(self, script=None, idle_budget=1):
        self.script = list(script) if script is not None else None
        self.trace = []
        self.n = 0
        self.idle = 0
        self.idle_budget = idle_budget
        self.events = []

    def fresh(self, lo, hi, what):
        if lo == hi:
            return lo
        if self.script is not None:
            if not self.script:
                raise ScheduleExhausted()
            k = self.script.pop(0)
            k = min(max(k, lo), hi)
        else:
            from crosshair.core import proxy_for_type
            from crosshair.util import IgnoreAttempt

            self.n += 1
            v = proxy_for_type(int, "c%d" % self.n)
            if not (lo <= v <= hi):
                raise IgnoreAttempt("range")
            k = hi
            for c in range(lo, hi):
                if v == c:
                    k = c
                    break
        self.trace.append(k)
        self.events.append("%s=%d" % (what, k))
        return k


class ScheduleExhausted(Exception):
    pass


class IdleBudget(BaseException):
    """the parent idled longer than the exploration budget: path is outside the bound"""


ENV = [None]


class StubProc:
    def __init__(self, target, args, faults):
        self.target = target
        self.batch, self.q = args
        self.items = None
        self.got = 0
        self.started = False
        self.dead = False
        self.exitcode = None
        self.faults = faults
        self.death = None  # number of items delivered before dying, None = healthy
        ENV[0].procs.append(self)

    def start(self):
        self.started = True
        col = []

        class Q:
            def put(s, x):
                col.append(x)

        self.target(self.batch, Q())
        self.items = col
        if self.faults:
            k = ENV[0].sched.fresh(0, len(col) + 1, "fault(w%d)" % ENV[0].procs.index(self))
            if k > 0:
                self.death = k - 1  # delivers exactly its first k-1 items, then dies
                ENV[0].faulty = True

    def deliverable(self):
        n = len(self.items) if self.death is None else self.death
        return self.got < n

    def finished_all(self):
        return not self.deliverable()

    def is_alive(self):
        if not self.started or self.dead:
            return False
        e = ENV[0]
        k = e.sched.fresh(0, 1, "alive(w%d)" % e.procs.index(self))
        if k == 1:
            self._exit()
            return False
        e.sched.idle += 1
        if e.sched.idle > e.sched.idle_budget:
            raise IdleBudget()
        return True

    def _exit(self):
        self.dead = True
        self.exitcode = 0 if self.death is None else -9

    def join(self, timeout=None):
        if self.dead or not self.started:
            return
        if timeout is not None:
            # a join with a timeout may return while the worker is still shutting down (exitcode stays None)
            if ENV[0].sched.fresh(0, 1, "join-timeout(w%d)" % ENV[0].procs.index(self)) == 1:
                return
        self._exit()


class HangDetected(BaseException):
    """replay only: the collection loop keeps polling an empty queue with nobody left to fill it"""


class StubQueue:
    def get(self, block=True, timeout=None):
        # the signature of multiprocessing.Queue.get: a positional number is `block`, not the timeout
        e = ENV[0]
        e.gets += 1
        if e.sched.script is not None and e.gets > 20000:
            raise HangDetected()
        procs = [p for p in e.procs if p.q is self and p.started]
        pend = [p for p in procs if p.deliverable()]
        must = [p for p in pend if p.dead]
        if block and timeout is None:
            # blocks until an item arrives; with nothing left to arrive it blocks for ever
            if not pend:
                raise HangDetected()
            must = pend
        opts = len(pend) + (0 if must else 1)
        if opts == 0:
            raise real_queue.Empty
        k = e.sched.fresh(0, opts - 1, "get")
        if k == len(pend):
            raise real_queue.Empty
        p = pend[k]
        p.got += 1
        return p.items[p.got - 1]

    def put(self, x):
        raise AssertionError("parent must not put")


class Env:
    def __init__(self, sched, faults):
        self.procs = []
        self.sched = sched
        self.faults = faults
        self.faulty = False
        self.gets = 0


def make_mp(faults):
    class StubMP:
        Queue = StubQueue

        @staticmethod
        def Process(target=None, args=()):
            return StubProc(target, args, faults)

        @staticmethod
        def cpu_count():
            return 64

    return StubMP


class StubRes:
    def __init__(self, tuples):
        self.cigartuples = tuples


class StubAligner:
    cigarstring = "10M"
    calls = []

    def __init__(self, ref):
        self.ref = ref

    def __call__(self, q, clip_cigar=False):
        StubAligner.calls.append((self.ref, q))
        return StubRes([(0, 10)])


class StubGFA:
    def __init__(self, p=None, *a, **k):
        pass

    def extract_path(self, p):
        return "ACGTACGTAC"


class StubFasta:
    def __init__(self, p):
        pass

    def fetch(self, n, s, e):
        return "ACGTACGTAC"[s:e]

    def close(self):
        pass


class StubPysam:
    FastaFile = StubFasta


class Out:
    name = "o.gaf"

    def __init__(self):
        self.parts = []
        self.closed = False

    def write(self, s):
        self.parts.append(s)

    def close(self):
        self.closed = True

    def flush(self):
        pass


class SysProxy:
    """the module's `sys`: stdout is the capture, everything else (exit, ...) is the real module"""

    def __init__(self, out):
        self.stdout = out

    def __getattr__(self, k):
        import sys as _s

        return getattr(_s, k)


class OsProxy:
    """the module's `os`: removing the (captured) output file is a no-op, everything else is the real module"""

    def remove(self, path):
        pass

    unlink = remove

    def __getattr__(self, k):
        import os as _o

        return getattr(_o, k)


def entry_of(W, B, nrec, T):
    """which public entry point the schedule is driven through: the collecting function itself, or the command function writing
    to standard output / to a file"""
    return ("realign_gaf", "run_realign-stdout", "run_realign-file")[(W + B + nrec + T) % 3]


def record_shape(i, salt):
    """records differ in what the worker does with them: 0 = short, realigned; 1 = more than 60000 read bases (passed through) without
    optional fields; 2 = passed through, three optional fields"""
    return (i + salt) % 3


def make_record(GA, i, salt):
    sh = record_shape(i, salt)
    if sh == 0:
        return GA.Alignment("r%d" % i, 10, 0, 10, "+", ">a", 10, 0, 10, 10, 10, 60, True, "10=", tags={"cg:Z:": "10="})
    if sh == 1:
        return GA.Alignment("r%d" % i, 70010, 5, 70005, "+", ">a", 70010, 0, 70000, 10, 10, 60, True, "", tags={})
    return GA.Alignment("r%d" % i, 70010, 5, 70005, "+", ">a", 70010, 0, 70000, 10, 10, 60, True, "70000=", tags={"NM:i:": "0", "cg:Z:": "70000=", "zz:Z:": "x"})


def install(R, GA, nrec, faults, sched, salt=0):
    """rebinding of the environment of the realign module R (instrumented twin or plain module)"""
    ENV[0] = Env(sched, faults)
    R.mp = make_mp(faults)
    R.pysam = StubPysam
    R.WavefrontAligner = StubAligner
    R.GFA = StubGFA

    class StubGAFReader:
        def __init__(self, p):
            pass

        def read_file(self):
            for i in range(nrec):
                yield make_record(GA, i, salt)

        def close(self):
            pass

    R.GAF = StubGAFReader


def run_schedule(R, GA, W, B, nrec, T, faults, script=None):
    """returns (outcome, names written, trace, events, faulty).  outcome: 'ok' | 'exit:<code>' | 'exc:<type>: msg' | 'idle'"""
    sched = Scripted(script, idle_budget=T)
    install(R, GA, nrec, faults, sched, salt=W + B)
    os.environ["GAFTOOLS_VERIF_BATCH_SIZE"] = str(B)
    os.environ["MARSCHALL_LAB_GAFTOOLS_VERIF"] = "1"
    out = Out()
    std = Out()
    outcome = "ok"
    entry = entry_of(W, B, nrec, T if script is None else T - 1000)
    R.sys = SysProxy(std)
    R.open = lambda path, mode="r", *a, **k: out
    R.os = OsProxy()
    R.log_memory_usage = lambda *a, **k: None
    try:
        if entry == "realign_gaf":
            R.realign_gaf("g.gaf", "g.gfa", "r.fa", out, W)
        elif entry == "run_realign-stdout":
            R.run_realign("g.gaf", "g.gfa", "r.fa", None, W)
        else:
            R.run_realign("g.gaf", "g.gfa", "r.fa", "o.gaf", W)
    except SystemExit as e:
        outcome = "exit:%s" % (e.code,)
    except IdleBudget:
        outcome = "idle"
    except (rt.LoopBound, ScheduleExhausted, HangDetected):
        outcome = "loop"
    except Exception as e:
        outcome = "exc:%s: %s" % (type(e).__name__, str(e)[:120])
    names = []
    for p in out.parts + std.parts:
        ok = isinstance(p, str) and p.endswith("\n") and p.count("\t") >= 11 and p.count("\n") == 1
        names.append(p.split("\t")[0] if ok else "malformed:%r" % (p,))
    # multiprocessing joins non-daemon children when the interpreter exits; a child that still has results to deliver
    # blocks in its queue feeder thread once the pipe is full, because nobody reads the queue any more
    LIVE_PENDING[0] = outcome.startswith("exit:") and any(
        p.started and not p.dead and p.items is not None and p.got < len(p.items) and p.death is None for p in ENV[0].procs)
    return outcome, names, list(sched.trace), list(sched.events), ENV[0].faulty


LIVE_PENDING = [False]


def judge(outcome, names, nrec, faulty):
    """None if the property holds on this schedule, else (key, text)"""
    want = ["r%d" % i for i in range(nrec)]
    if outcome == "idle":
        return "SKIP"
    if outcome == "loop":
        return ("hang", "the collection loop did not finish within the loop fuel")
    if faulty:
        if outcome.startswith("exit:") and outcome not in ("exit:0", "exit:None"):
            if LIVE_PENDING[0]:
                return ("exit-with-live-worker", "realign called sys.exit while a healthy worker was still running with undelivered results: at interpreter "
                        "exit multiprocessing joins that worker, which blocks in its queue feeder thread as soon as its remaining results exceed the pipe "
                        "buffer - the command hangs instead of terminating")
            return None
        if outcome == "ok":
            return ("fault-unnoticed", "a worker died abnormally but realign returned normally (records written: %r)" % (names,))
        return ("fault-other", "a worker died abnormally and realign ended with %s" % outcome)
    if outcome != "ok":
        return ("no-fault-failure", "no worker failed, yet realign ended with %s" % outcome)
    if names != want:
        kind = "duplicate" if len(names) != len(set(names)) else "missing" if set(want) - set(names) else "order"
        return ("output-" + kind, "records written %r, expected %r" % (names, want))
    return None
