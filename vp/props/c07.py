"""C07 — order_gfa and GFA I/O preserve the graph."""
import itertools
import os

from .. import rt, stubs
from ..engine import Harness
from . import orderfam as F

ID = "C07"
setup = F.setup

META = {
    "level": "other",
    "functions": {"gaftools.gfa": ["GFA.read_graph", "GFA.add_node", "GFA.add_edge", "GFA.write_gfa", "GFA.sort_bo_no", "Node.to_gfa_line"],
                  "gaftools.utils": ["is_correct_tag"], "gaftools.cli.order_gfa": ["run_order_gfa"]},
    "explanation": "Symbolic execution (CrossHair/z3) of the real read_graph -> run_order_gfa -> write_gfa pipeline and of a plain "
    "read_graph -> write_gfa -> read_graph round trip on the model file system.  The GFA text is assembled from symbolic "
    "selectors: orientation style of the bubble links (incl. an allele entered on its '-' side), which end declares each link, "
    "links declared from both ends, self-links (++, +-, --), tags on L lines, extra tags on S lines (incl. a Z value containing "
    "':'), overlap 0M/5M, interleaved H/W/P/# records; --with-sequence and --by-chrom are parameters.  Oracle: a GFA reader "
    "written independently of gaftools compares input and output: same segment ids, sequences ('*' without --with-sequence), "
    "same tags in order with only BO and NO added, same set of links up to the equivalence a+ b+ == b- a-, same overlaps and "
    "link tags, no duplicates; all S before all L; S lines in (BO, NO) order; the CSV lists every node once with the same BO/NO "
    "and its role.",
    "bounds": {"quick": "one chromosome of 6 segments, selector menus: 3 link styles x 4 declaration patterns x 4 self-link options x 2 L-tag "
                        "options x 3 S-tag options x 2 overlaps x 2 other-record options", "thorough": "adds a second chromosome and all four "
               "option combinations"},
    "out": ["'*' overlaps", "GFA2 / P / W semantics (such lines are only required to be ignored)", "segments without links to the component"],
    "assumptions": ["model file system", "selectors range over the stated menus; integer tag values are concrete because node adjacency is "
                    "hashed"],
}
META["explanation"] += '  long/*: four chromosomes (two chains, a single bubble, a single segment) in four requested orders; (BO, NO) must be unique and strictly increasing, also across the per-chromosome files.'
META["explanation"] += '  ids-from-source/*: two small chromosomes whose segment ids are taken from the string constants of order_gfa.py and gfa.py (Name, chr1, BO, s, b, S, L, ... with and without digits).'

NODES = [("t0", "AAC", 0), ("r0", "GGT", 3), ("p0", "AC", 6), ("q0", "TTTT", None), ("r1", "CA", 8), ("u0", "G", 10)]
STAGS = [[], ["xx:i:5", "yy:Z:hello"], ["zz:Z:a:b"]]
LTAGS = [[], ["L1:i:7", "L2:Z:inverted alt  allele"]]
SELF = [None, ("q0", "+", "q0", "+"), ("q0", "+", "q0", "-"), ("q0", "-", "q0", "-")]


def pick(sel, options):
    for i, o in enumerate(options):
        if sel == i:
            return o
    return options[-1]


def flip_link(l):
    f = {"+": "-", "-": "+"}
    return (l[2], f[l[3]], l[0], f[l[1]])


def make_lines(style, decl, selfl, ltag, stag, ov, other):
    """GFA text for the chosen options"""
    lines = []
    if other:
        lines.append("H\tVN:Z:1.0\n")
    for i, (nid, seq, so) in enumerate(NODES):
        if so is None:
            tags = ["LN:i:%d" % len(seq), "SN:Z:hapQ", "SO:i:0", "SR:i:1"]
        else:
            tags = ["LN:i:%d" % len(seq), "SN:Z:chr1", "SO:i:%d" % so, "SR:i:0"]
        if nid == "p0" or nid == "q0":
            tags = tags + STAGS[stag]
        lines.append("S\t%s\t%s\t%s\n" % (nid, seq, "\t".join(tags)))
        if other and i == 2:
            lines.append("# a comment\n")
    links = [("t0", "+", "r0", "+"), ("r0", "+", "p0", "+"), ("p0", "+", "r1", "+"), ("r1", "+", "u0", "+")]
    if style == 0:
        links += [("r0", "+", "q0", "+"), ("q0", "+", "r1", "+")]
    elif style == 1:
        links += [("r0", "+", "q0", "-"), ("q0", "-", "r1", "+")]
    else:
        links += [("r0", "+", "q0", "+"), ("q0", "+", "r1", "+"), ("r0", "+", "r1", "+")]
    if selfl is not None:
        links.append(selfl)
    out = []
    for i, l in enumerate(links):
        if decl == 1 or (decl == 2 and i % 2 == 0):
            l = flip_link(l)
        out.append(l)
        if decl == 3 and i in (1, 4):
            out.append(flip_link(l))
    for i, l in enumerate(out):
        t = LTAGS[ltag] if (i % 3 != 1) else []  # most links carry the tags, some none (all four orientation kinds occur with tags)
        lines.append("L\t%s\t%s\t%s\t%s\t%dM%s\n" % (l[0], l[1], l[2], l[3], ov, "".join("\t" + x for x in t)))
    if other:
        lines.append("P\tpath1\tt0+,r0+\t*\n")
        lines.append("W\ts\t1\tchr1\t0\t5\t>t0>r0\n")
    if decl in (1, 2):
        # GFA prescribes no line order: links before the segments (1) / interleaved with them (2)
        ls = [l for l in lines if l.startswith("L")]
        rest = [l for l in lines if not l.startswith("L")]
        if decl == 1:
            first_s = [i for i, l in enumerate(rest) if l.startswith("S")][0]
            lines = rest[:first_s] + ls + rest[first_s:]
        else:
            lines = []
            for l in rest:
                lines.append(l)
                if l.startswith("S") and ls:
                    lines.append(ls.pop(0))
            lines += ls
    return lines


COMBOS = [(0, 0, 0, 0), (1, 1, 1, 1), (0, 2, 1, 0), (1, 0, 0, 1), (1, 2, 0, 0), (0, 1, 0, 1)]


def harnesses(tier):
    hs = []
    modes = [(0, 0), (1, 1)] if tier == "quick" else [(0, 0), (0, 1), (1, 0), (1, 1)]
    for ws, by in modes:
        for style in (0, 1, 2):
            for decl in (0, 1, 2, 3):
                hs.append({"id": "order/seq%d/by%d/style%d/decl%d" % (ws, by, style, decl),
                           "params": {"kind": "order", "with_seq": ws, "by_chrom": by, "style": style, "decl": decl, "full": tier == "thorough"},
                           "timeout": 1500, "twin": (ws, by, style, decl) == (0, 0, 0, 0)})
    for by in (0, 1):
        for ws in (0, 1):
            hs.append({"id": "long/seq%d/by%d" % (ws, by), "params": {"kind": "long", "with_seq": ws, "by_chrom": by}, "timeout": 900})
    # segment ids taken from the string constants of order_gfa.py / gfa.py (Name, chr1, BO, s, b, S, L, ... with and without a digit)
    for j, k in enumerate(range(0, len(F.names_from_source()), 11)):
        hs.append({"id": "ids-from-source/%d/by%d" % (k, j % 2), "params": {"kind": "long", "with_seq": j % 2, "by_chrom": j % 2, "name_pos": k}, "timeout": 900})
    for style in (0, 1, 2):
        for decl in ((0, 3) if tier == "quick" else (0, 1, 2, 3)):
            hs.append({"id": "roundtrip/style%d/decl%d" % (style, decl), "params": {"kind": "roundtrip", "style": style, "decl": decl, "full": tier == "thorough"},
                       "timeout": 1500})
    return hs


def compare(inp, out, with_seq, need_bo, sl_order=True):
    si, li, ki = F.parse_gfa(inp)
    so, lo, ko = F.parse_gfa(out)
    if any(k.endswith("#dup") for k in so):
        return "segment written twice"
    if set(si) != set(so):
        return "segments %r, input has %r" % (sorted(so), sorted(si))
    for nid in si:
        seq_i, tags_i = si[nid]
        seq_o, tags_o = so[nid]
        if with_seq:
            if seq_o != seq_i:
                return "sequence of %s changed" % nid
        elif seq_o != "*":
            return "sequence of %s not stripped" % nid
        rest = [t for t in tags_o if not (t.startswith("BO:i:") or t.startswith("NO:i:"))]
        if rest != list(tags_i):
            return "tags of %s: %r, input %r" % (nid, tags_o, tags_i)
        nbo = len([t for t in tags_o if t.startswith("BO:i:")])
        nno = len([t for t in tags_o if t.startswith("NO:i:")])
        if need_bo and (nbo != 1 or nno != 1):
            return "segment %s does not carry exactly one BO and one NO" % nid
        if not need_bo and (nbo or nno):
            return "BO/NO invented on %s" % nid
    ci = {}
    for key, ov, tg in li:
        ci.setdefault(key, []).append((ov, tg))
    co = {}
    for key, ov, tg in lo:
        co.setdefault(key, []).append((ov, tg))
    if set(ci) != set(co):
        lost = sorted(set(ci) - set(co))
        inv = sorted(set(co) - set(ci))
        return "links lost %r / invented %r" % (lost, inv)
    for key in ci:
        if len(co[key]) > len(ci[key]):
            return "link %r duplicated" % (key,)
        for ov, tg in co[key]:
            if ov not in [x[0] for x in ci[key]]:
                return "overlap of %r changed" % (key,)
        ti = sorted(set(t for ov, tg in ci[key] for t in tg))
        to = sorted(set(t for ov, tg in co[key] for t in tg))
        if ti != to:
            return "tags of link %r: %r, input %r" % (key, to, ti)
    if sl_order:
        r = s_before_l(out)
        if r:
            return r
    return None


def s_before_l(out):
    seen_l = False
    for l in out:
        if l.startswith("L"):
            seen_l = True
        elif l.startswith("S") and seen_l:
            return "an S line follows an L line"
    return None


def bo_sorted(out):
    last = None
    for l in out:
        if l.startswith("S"):
            f = l.rstrip("\n").split("\t")
            bo = int(F.tagval(f[3:], "BO"))
            no = int(F.tagval(f[3:], "NO"))
            if last is not None and (bo, no) <= last:
                return "S lines are not in strictly increasing (BO, NO) order"
            last = (bo, no)
    return None


def check_csv(csv, out):
    segs, _, _ = F.parse_gfa(out)
    rows = [l.rstrip("\n").split(",") for l in csv]
    header = ["Name", "Color", "SN", "SO", "BO", "NO"]
    body = [r for r in rows if r and r != header]  # a segment may be called Name: only the header row itself is not a node
    names = [r[0] for r in body]
    if sorted(names) != sorted(segs):
        return "CSV lists %r, graph has %r" % (sorted(names), sorted(segs))
    for r in body:
        tags = segs[r[0]][1]
        if r[4] != F.tagval(tags, "BO") or r[5] != F.tagval(tags, "NO"):
            return "CSV BO/NO of %s differ from the GFA" % r[0]
        role = "orange" if r[5] == "0" else "blue"
        if r[1] != role:
            return "CSV role of %s is %s" % (r[0], r[1])
    return None


LONG_ORDERS = ["chr1,chr2,chr3,chr4", "chr2,chr1,chr4,chr3", "chr3,chr1,chr4,chr2", "chr4,chr3,chr2,chr1"]


def unique_bo_no(out):
    seen = set()
    for l in out:
        if l.startswith("S"):
            f = l.rstrip("\n").split("\t")
            key = (F.tagval(f[3:], "BO"), F.tagval(f[3:], "NO"))
            if key in seen:
                return "two segments carry the same (BO, NO) = %r" % (key,)
            seen.add(key)
    return None


def source_name_lines(variant, name_pos):
    """two small chromosomes whose segment ids come from the string constants of the analysed modules (orderfam.names_from_source)"""
    spec = F.Spec()
    spec.name_pos = name_pos
    F.build_chain(spec, "chr1", ["snp", "ins"], tip_start=True, tip_end=False, naming=5)
    F.build_chain(spec, "chr2", ["two"], tip_start=False, tip_end=True, naming=5)
    so = {}
    for c in ("chr1", "chr2"):
        so.update(F.so_layout(spec, c, [3 + (i % 4) for i in range(F.n_refs(spec, c))], 0))
    ids, links = F.orderings(spec, variant)
    return F.gfa_text(spec, so, ids, links, with_seq=True)


def long_lines(variant, ws):
    """four chromosomes (two long chains, one that is a single bubble, one that is a single segment), 17+ chain elements in total, so BO
    values cross the one/two digit boundary"""
    spec = F.Spec()
    F.build_chain(spec, "chr1", ["snp", "ins", "del"], tip_start=True, tip_end=True, naming=0)
    F.build_chain(spec, "chr2", ["inv", "two", "tri", "snp"], tip_start=True, tip_end=False, naming=1)
    F.build_chain(spec, "chr3", ["snp"], tip_start=False, tip_end=False, naming=0)  # the whole chromosome is one bubble
    F.build_chain(spec, "chr4", [], tip_start=False, tip_end=False, naming=0)  # a single segment
    so = {}
    for c in ("chr1", "chr2", "chr3", "chr4"):
        so.update(F.so_layout(spec, c, [3 + (i % 4) for i in range(F.n_refs(spec, c))], 0))
    ids, links = F.orderings(spec, variant)
    return F.gfa_text(spec, so, ids, links, with_seq=True)


def build(params):
    if params["kind"] == "long":
        def case_long(variant, order):
            O = F.M["O"]
            e = stubs.env()
            v = pick(variant, [0, 1, 2, 3])
            orders = LONG_ORDERS if "name_pos" not in params else ["chr1,chr2", "chr2,chr1", "chr1,chr2", "chr2,chr1"]
            req = pick(order, orders)
            ws, by = bool(params["with_seq"]), bool(params["by_chrom"])
            lines = long_lines(v, ws) if "name_pos" not in params else source_name_lines(v, params["name_pos"])
            e.files["in.gfa"] = stubs.MFile("text", lines, None)
            O.run_order_gfa("in.gfa", "out", by, chromosome_order=req, with_sequence=ws)
            names = ["out/in-%s.gfa" % c for c in req.split(",")] if by else ["out/in-complete.gfa"]
            got = []
            for nm in names:
                if nm not in e.files:
                    return "missing output %s" % nm
                out = [str(l) for l in e.files[nm].lines]
                r = bo_sorted(out) or s_before_l(out)
                if r:
                    return "%s: %s" % (nm, r)
                r = check_csv([str(l) for l in e.files[nm[:-4] + ".csv"].lines], out)
                if r:
                    return "%s: %s" % (nm, r)
                got += out
            return unique_bo_no(got) or compare(lines, got, ws, True, sl_order=False)

        return Harness([("variant", "int"), ("order", "int")], ["0 <= variant <= 3 and 0 <= order <= 3"], case_long, fuel=4000)
    style = params["style"]
    decl = params["decl"]
    if params.get("full"):
        args = [("selfl", "int"), ("ltag", "int"), ("stag", "int"), ("ov", "int"), ("other", "int")]
        pre = ["0 <= selfl <= 3 and 0 <= ltag <= 1 and 0 <= stag <= 2 and 0 <= ov <= 1 and 0 <= other <= 1"]
    else:
        args = [("selfl", "int"), ("combo", "int")]
        pre = ["0 <= selfl <= 3 and 0 <= combo <= %d" % (len(COMBOS) - 1)]

    def case(selfl, *rest):
        G, O = F.M["G"], F.M["O"]
        e = stubs.env()
        if params.get("full"):
            ltag, stag, ov, other = pick(rest[0], [0, 1]), pick(rest[1], [0, 1, 2]), pick(rest[2], [0, 1]), pick(rest[3], [0, 1])
        else:
            ltag, stag, ov, other = pick(rest[0], COMBOS)
        lines = make_lines(style, decl, pick(selfl, SELF), ltag, stag, [0, 5][ov], other)
        e.files["in.gfa"] = stubs.MFile("text", lines, None)
        if params["kind"] == "roundtrip":
            g = G.GFA("in.gfa", low_memory=False)
            g.write_gfa(output_file="rt.gfa")
            out = [str(l) for l in e.files["rt.gfa"].lines]
            r = compare(lines, out, True, False)
            if r:
                return "round trip: " + r
            g2 = G.GFA("rt.gfa", low_memory=False)
            if not g.is_equal_to(g2):
                return "graph loaded from the written file is not equal to the original"
            return None
        ws, by = bool(params["with_seq"]), bool(params["by_chrom"])
        O.run_order_gfa("in.gfa", "out", by, chromosome_order="chr1", with_sequence=ws)
        gname = "out/in-chr1.gfa" if by else "out/in-complete.gfa"
        cname = "out/in-chr1.csv" if by else "out/in-complete.csv"
        if gname not in e.files or cname not in e.files:
            return "expected outputs %s / %s, got %r" % (gname, cname, sorted(p for p in e.files if p.startswith("out/")))
        extra = [p for p in e.files if p.startswith("out/") and p not in (gname, cname)]
        if extra:
            return "unexpected files %r" % extra
        out = [str(l) for l in e.files[gname].lines]
        r = compare(lines, out, ws, True)
        if r:
            return r
        r = bo_sorted(out)
        if r:
            return r
        return check_csv([str(l) for l in e.files[cname].lines], out)

    return Harness(args, pre, case, fuel=800)


def replay(params, model, wd):
    import gaftools.gfa as G
    import gaftools.cli.order_gfa as O

    if params["kind"] == "long":
        v, oi = model["args"]
        ws, by = bool(params["with_seq"]), bool(params["by_chrom"])
        lines = long_lines(v, ws) if "name_pos" not in params else source_name_lines(v, params["name_pos"])
        orders = LONG_ORDERS if "name_pos" not in params else ["chr1,chr2", "chr2,chr1", "chr1,chr2", "chr2,chr1"]
        p = os.path.join(wd, "in.gfa")
        open(p, "w").write("".join(lines))
        od = os.path.join(wd, "out")
        try:
            O.run_order_gfa(p, od, by, chromosome_order=orders[oi], with_sequence=ws)
            names = ["in-%s.gfa" % c for c in orders[oi].split(",")] if by else ["in-complete.gfa"]
            got = []
            r = None
            for nm in names:
                out = open(os.path.join(od, nm)).read().splitlines(True)
                r = r or bo_sorted(out) or s_before_l(out) or check_csv(open(os.path.join(od, nm[:-4] + ".csv")).read().splitlines(True), out)
                got += out
            r = r or unique_bo_no(got) or compare(lines, got, ws, True, sl_order=False)
        except BaseException as e:  # noqa
            return {"reproduced": True, "key": "C07:long:exception:%s" % type(e).__name__, "what": repr(e)}
        if r:
            kind = "order" if "order" in r or "same (BO" in r else "csv" if "CSV" in r else "content"
            return {"reproduced": True, "key": "C07:long:%s" % kind, "what": r}
        return {"reproduced": False, "detail": "long chain output preserved and ordered"}
    decl = params["decl"]
    if params.get("full"):
        selfl, ltag, stag, ov, other = model["args"]
    else:
        selfl = model["args"][0]
        ltag, stag, ov, other = COMBOS[model["args"][1]]
    lines = make_lines(params["style"], decl, SELF[selfl], ltag, stag, [0, 5][ov], other)
    p = os.path.join(wd, "in.gfa")
    open(p, "w").write("".join(lines))
    opts = {"link-declaration": decl, "self-link": SELF[selfl], "L-tags": LTAGS[ltag], "S-tags": STAGS[stag], "overlap": [0, 5][ov], "other-records": other}
    cause = "S-tag-with-colon" if stag == 2 else "self-link" if selfl else "both-ends" if decl == 3 else "general"
    try:
        if params["kind"] == "roundtrip":
            g = G.GFA(p, low_memory=False)
            o = os.path.join(wd, "rt.gfa")
            g.write_gfa(output_file=o)
            out = open(o).read().splitlines(True)
            r = compare(lines, out, True, False)
            if r is None and not g.is_equal_to(G.GFA(o, low_memory=False)):
                r = "reloaded graph differs"
        else:
            ws, by = bool(params["with_seq"]), bool(params["by_chrom"])
            od = os.path.join(wd, "out")
            O.run_order_gfa(p, od, by, chromosome_order="chr1", with_sequence=ws)
            gname = os.path.join(od, "in-chr1.gfa" if by else "in-complete.gfa")
            cname = os.path.join(od, "in-chr1.csv" if by else "in-complete.csv")
            if not (os.path.exists(gname) and os.path.exists(cname)):
                return {"reproduced": True, "key": "C07:outputs-missing", "what": "files %r" % sorted(os.listdir(od)), "files": {"gfa": lines}}
            out = open(gname).read().splitlines(True)
            r = compare(lines, out, ws, True) or bo_sorted(out) or check_csv(open(cname).read().splitlines(True), out)
    except BaseException as e:  # noqa
        return {"reproduced": True, "key": "C07:exception:%s:%s" % (type(e).__name__, cause), "what": "%s: %s with options %r" % (type(e).__name__, e, opts),
                "files": {"gfa": lines}}
    if r:
        kind = "links" if "link" in r else "tags" if "tags" in r else "sequence" if "sequence" in r else "order" if "order" in r or "follows" in r else "csv" if "CSV" in r else "other"
        return {"reproduced": True, "key": "C07:%s:%s" % (kind, cause), "what": "%s (options %r)" % (r, opts), "files": {"gfa": lines, "output": out}}
    return {"reproduced": False, "detail": "output graph equals the input graph"}
