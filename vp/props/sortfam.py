"""Shared machinery for C08 / C09 / C10: gaftools.cli.sort on the model file system."""
import itertools
import json
import os

from .. import rt, stubs
from ..engine import Harness

M = {}


def setup():
    import gaftools.cli.sort as S
    import gaftools.gfa as G

    M["S"] = S
    M["G"] = G


# node templates: id -> (SN, SR).  BO/NO are symbolic per harness.
NODES = {
    "s1": ("chr1", 0),
    "s2": ("chr1", 0),
    "x1": ("hapX", 1),
    "t1": ("chr2:1000-2000", 0),  # a region-style contig name: a Z value may hold colons
}


def mk_node(nid, bo, no):
    G = M["G"]
    sn, sr = NODES[nid]
    n = G.Node(nid)
    n.tags = {
        "SN": ("Z", sn),
        "SR": ("i", str(sr)),
        "BO": ("i", rt.mk([rt.Num(bo)])),
        "NO": ("i", rt.mk([rt.Num(no)])),
    }
    return n


def tokens(path):
    out = []
    cur = None
    for ch in path:
        if ch in "<>":
            if cur is not None:
                out.append(cur)
            cur = [ch, ""]
        else:
            cur[1] += ch
    out.append(cur)
    return [(o, n) for o, n in out]


def expected(path, tags, plen, pstart, pend):
    """Independent restatement of the documented anchor rule.
    tags: id -> (bo, no).  Returns (BO, NO, start, inv, sn)."""
    fwd = 0
    rev = 0
    sn = "unknown"
    for o, n in tokens(path):
        bo, no = tags[n]
        if NODES[n][1] == 0 and sn == "unknown":
            sn = NODES[n][0]
        if bo == -1 or no == -1:
            continue
        if no != 0:
            continue
        if o == ">":
            fwd += 1
        else:
            rev += 1
    inv = 1 if (fwd != 0 and rev != 0) else 0
    tk = tokens(path)
    if fwd < rev:
        a = tk[-1][1]
        start = plen - pend
    else:
        a = tk[0][1]
        start = pstart
    return tags[a][0], tags[a][1], start, inv, sn


def refkey(bo, no, start, idx):
    if bo == -1:
        return (1, 0, 0, 0)
    return (0, bo, no, start)


def build_lines(paths, nums, tagsuffix="\ttp:A:P\tcg:Z:10="):
    """nums[i] = (plen, pstart, pend)"""
    lines = []
    for i, p in enumerate(paths):
        plen, ps, pe = nums[i]
        lines.append(
            rt.vp_fmt_("r%d\t100\t0\t100\t+\t%s\t%d\t%d\t%d\t90\t100\t60" + tagsuffix + "\n", (i, p, plen, ps, pe))
        )
    return lines


def run_sort(paths, tags, nums, rcookies, wcookies, gz_in=False, gz_out=False, index_file="o.gsi"):
    """executes the real sort.sort on the model FS; returns (writer lines, pickled index or None)"""
    from collections import defaultdict

    S = M["S"]
    e = stubs.env()
    nodes = {nid: mk_node(nid, *tags[nid]) for nid in tags}
    lines = build_lines(paths, nums)
    if NO_FINAL_NEWLINE[0] and lines:
        lines = lines[:-1] + [lines[-1][:-1]]  # a file whose last record is not newline-terminated
    e.files["in.gaf"] = stubs.MFile("bgzf" if gz_in else "text", lines, rcookies)
    e.writer_cookies["o.gaf"] = wcookies
    if gz_out:
        w = stubs._Bgzf.BGZFile("o.gaf", "wb")
    else:
        w = stubs.vp_open("o.gaf", "w")
    S.sort("in.gaf", nodes, w, defaultdict(lambda: [None, None]), index_file)
    w.close()
    out = e.files["o.gaf"].lines
    return lines, out, e.pickles.get(index_file)


NO_FINAL_NEWLINE = [False]


def out_names(out):
    names = []
    for ln in out:
        f = ln.split("\t")
        names.append(f[0])
    return names


def check_order(paths, tags, nums, out):
    n = len(paths)
    if len(out) != n:
        return "output has %d lines for %d records" % (len(out), n)
    names = out_names(out)
    keys = []
    for i in range(n):
        bo, no, st, inv, sn = expected(paths[i], tags, *nums[i])
        keys.append(refkey(bo, no, st, i))
    idx = []
    for nm in names:
        if not (isinstance(nm, str) and nm.startswith("r") and nm[1:].isdigit() and int(nm[1:]) < n):
            return "unknown record name in output"
        idx.append(int(nm[1:]))
    if sorted(idx) != list(range(n)):
        return "output is not a permutation of the input records"
    for a in range(n - 1):
        i, j = idx[a], idx[a + 1]
        ki, kj = keys[i], keys[j]
        if ki[0] == 1 and kj[0] == 1:
            continue  # relative order of untagged records is not specified
        if ki > kj:
            return "records out of order: r%d before r%d" % (i, j)
        if ki == kj and i > j:
            return "equal keys not kept in input order: r%d before r%d" % (i, j)
    return None


def check_content(paths, tags, nums, lines, out):
    n = len(paths)
    if len(out) != n:
        return "output has %d lines for %d records" % (len(out), n)
    seen = []
    for ln in out:
        f = ln.split("\t")
        nm = f[0]
        if not (isinstance(nm, str) and nm.startswith("r") and nm[1:].isdigit() and int(nm[1:]) < n):
            return "unknown record name in output"
        i = int(nm[1:])
        if i in seen:
            return "record r%d emitted twice" % i
        seen.append(i)
        bo, no, st, inv, sn = expected(paths[i], tags, *nums[i])
        want = lines[i].rstrip() + rt.vp_fmt_("\tbo:i:%d\tsn:Z:%s\tiv:i:%d\n", (bo, sn, inv))
        wf = want.split("\t")
        if len(f) != len(wf):
            return "record r%d has %d fields, expected %d" % (i, len(f), len(wf))
        for a, b in zip(f, wf):
            if not (a == b):
                return "record r%d: field differs" % i
    return None


def check_index(paths, tags, nums, out, wcookies, index, index_file):
    if index_file is None:
        return None if index is None else "index written although no index path"
    if index is None:
        return "no index written"
    if not isinstance(index, dict):
        return "index is not a dict"
    first = {}
    last = {}
    for pos, ln in enumerate(out):
        f = ln.split("\t")
        sn = None
        for x in f[12:]:
            if isinstance(x, str) and x.startswith("sn:Z:"):
                sn = x[5:].rstrip("\n")
        if sn is None:
            return "output record without sn tag"
        if sn not in first:
            first[sn] = pos
        last[sn] = pos
    want = {sn: [wcookies[first[sn]], wcookies[last[sn]]] for sn in first if sn != "unknown"}
    if set(index.keys()) != set(want.keys()):
        return "index keys %r, expected %r" % (sorted(index.keys()), sorted(want.keys()))
    for sn in want:
        got = index[sn]
        if len(got) != 2 or not (got[0] == want[sn][0]) or not (got[1] == want[sn][1]):
            return "index entry of %s does not hold the first/last record offsets" % sn
    return None


# ------------------------------------------------------------------------------------------
# harness: sort.sort end to end


PRIOR = {"s1": (9, 0), "s2": (2, 0), "x1": (5, 2), "t1": (4, 1)}


def prior_tags(used):
    """another build of the graph: the same segment names with other BO/NO tags (sorted earlier in the same process)"""
    return {nid: PRIOR[nid] for nid in used}


def build_sort(params, which):
    paths = params["paths"]
    n = len(paths)
    used = sorted({nid for p in paths for _, nid in tokens(p)})
    args = []
    pre = []
    for nid in used:
        args += [("bo_" + nid, "int"), ("no_" + nid, "int")]
        if params.get("scaffold_ref", True) and NODES[nid][1] == 0:
            pre.append("bo_%s >= 0 and no_%s == 0" % (nid, nid))
        else:
            pre.append("bo_%s >= -1 and no_%s >= -1" % (nid, nid))
        if params.get("large"):
            pre.append("bo_%s >= 300 and no_%s >= 300" % (nid, nid))
    for i in range(n):
        args += [("pl%d" % i, "int"), ("ps%d" % i, "int"), ("pe%d" % i, "int")]
        pre.append("0 <= ps%d < pe%d <= pl%d" % (i, i, i))
    args += [("c%d" % i, "int") for i in range(n + 1)]
    pre.append(" < ".join(["0 <= c0"] + ["c%d" % i for i in range(1, n + 1)]))
    args += [("w%d" % i, "int") for i in range(n + 1)]
    pre.append(" < ".join(["0 <= w0"] + ["w%d" % i for i in range(1, n + 1)]))
    gz_in = bool(params.get("gz_in"))
    gz_out = bool(params.get("gz_out"))
    index_file = params.get("index_file", "o.gsi" if which == "C10" else None)

    def case(*a):
        NO_FINAL_NEWLINE[0] = bool(params.get("no_final_newline"))
        it = iter(a)
        tags = {}
        for nid in used:
            tags[nid] = (next(it), next(it))
        nums = [(next(it), next(it), next(it)) for _ in range(n)]
        rc = [next(it) for _ in range(n + 1)]
        wc = [next(it) for _ in range(n + 1)]
        if params.get("prior"):
            run_sort(paths, prior_tags(used), [(500, 1 + i, 2 + i) for i in range(n)], rc, wc, gz_in, gz_out, index_file)
        lines, out, index = run_sort(paths, tags, nums, rc, wc, gz_in, gz_out, index_file)
        if which == "C08":
            return check_order(paths, tags, nums, out)
        if which == "C09":
            return check_content(paths, tags, nums, lines, out)
        if which == "C10":
            # the index is judged against the sn tags the output carries (C10's statement); whether those tags are right is C09
            return check_index(paths, tags, nums, out, wc, index, index_file)
        raise AssertionError(which)

    return Harness(args, pre, case, fuel=4 * n + 8)


def decode_sort(params, model):
    paths = params["paths"]
    n = len(paths)
    used = sorted({nid for p in paths for _, nid in tokens(p)})
    it = iter(model["args"])
    tags = {}
    for nid in used:
        tags[nid] = (next(it), next(it))
    nums = [(next(it), next(it), next(it)) for _ in range(n)]
    return used, tags, nums


def write_graph(wd, tags, name="g.gfa"):
    p = os.path.join(wd, name)
    with open(p, "w") as fh:
        for nid, (bo, no) in tags.items():
            sn, sr = NODES[nid]
            # an annotation with blanks (legal in a Z value) sits between the rGFA tags and the BO/NO tags
            fh.write("S\t%s\t*\tLN:i:500\tSN:Z:%s\tSO:i:0\tSR:i:%d\tDS:Z:primary assembly, patch 2\tBO:i:%d\tNO:i:%d\n" % (nid, sn, sr, bo, no))
    return p


def real_sort(wd, paths, tags, nums, gz_in=False, gz_out=False, order=None, outind=None, want_index=True, no_final_newline=False, prior=False, utf8=False):
    """runs the real run_sort on real files; returns (input lines, output lines, index dict, error)"""
    import pickle
    import pysam
    import gaftools.cli.sort as S
    from pysam import libcbgzf

    if prior:
        pd = os.path.join(wd, "prior")
        os.makedirs(pd, exist_ok=True)
        real_sort(pd, paths, prior_tags(sorted(tags)), [(500, 1 + i, 2 + i) for i in range(len(paths))], gz_in, gz_out)
    g = write_graph(wd, tags)
    order = list(range(len(paths))) if order is None else order
    lines = []
    for i in order:
        plen, ps, pe = nums[i]
        lines.append("r%d\t100\t0\t100\t+\t%s\t%d\t%d\t%d\t90\t100\t60\ttp:A:P\tcg:Z:10=" % (i, paths[i], plen, ps, pe))
        if utf8:
            # a comment with characters that take more than one byte in the file: character counts and byte offsets differ
            lines[-1] += "\tco:Z:caf\u00e9 \u4e2d\u6587"
    gaf = os.path.join(wd, "in.gaf")
    with open(gaf, "w", encoding="utf-8") as fh:
        text = "".join(l + "\n" for l in lines)
        fh.write(text[:-1] if no_final_newline else text)
    if gz_in:
        pysam.tabix_compress(gaf, gaf + ".gz", force=True)
        gaf = gaf + ".gz"
    out = os.path.join(wd, "out.gaf" + (".gz" if gz_out else ""))
    for f in (out, out + ".gsi"):
        if os.path.exists(f):
            os.remove(f)
    err = None
    try:
        S.run_sort(g, gaf, outgaf=out, outind=outind, bgzip=gz_out)
    except BaseException as e:  # noqa
        err = "%s: %s" % (type(e).__name__, e)
    outl = []
    offs = []
    if os.path.exists(out):
        try:
            if gz_out:
                fh = libcbgzf.BGZFile(out, "rb")
                while True:
                    o = fh.tell()
                    l = fh.readline()
                    if not l:
                        break
                    offs.append(o)
                    outl.append(l.decode().rstrip("\n"))
                fh.close()
            else:
                fh = open(out, encoding="utf-8")
                while True:
                    o = fh.tell()
                    l = fh.readline()
                    if not l:
                        break
                    offs.append(o)
                    outl.append(l.rstrip("\n"))
                fh.close()
        except Exception as e:
            err = err or ("unreadable output: %r" % (e,))
    idx = None
    ip = outind or (out + ".gsi")
    if os.path.exists(ip):
        with open(ip, "rb") as fh:
            idx = pickle.load(fh)
    return lines, outl, offs, idx, err


def concrete_order_violation(paths, tags, nums, outl):
    n = len(paths)
    if len(outl) != n:
        return "output has %d lines for %d records" % (len(outl), n)
    idx = []
    for l in outl:
        nm = l.split("\t")[0]
        idx.append(int(nm[1:]))
    if sorted(idx) != list(range(n)):
        return "not a permutation"
    keys = [refkey(*expected(paths[i], tags, *nums[i])[:3], i) for i in range(n)]
    for a in range(n - 1):
        i, j = idx[a], idx[a + 1]
        if keys[i][0] == 1 and keys[j][0] == 1:
            continue
        if keys[i] > keys[j]:
            return "r%d (key %r) written before r%d (key %r)" % (i, keys[i][1:], j, keys[j][1:])
        if keys[i] == keys[j] and i > j:
            return "r%d written before r%d although both have key %r (equal keys must stay in input order)" % (i, j, keys[i][1:])
    return None


def fingerprint_order(paths, tags, nums, i, j):
    """canonical description of why two records are mis-ordered (for known-findings keys)"""
    ki = refkey(*expected(paths[i], tags, *nums[i])[:3], i)
    kj = refkey(*expected(paths[j], tags, *nums[j])[:3], j)
    if ki[0] != kj[0]:
        return "untagged-vs-tagged"
    if ki[1] != kj[1]:
        return "BO"
    if ki[2] != kj[2]:
        return "NO"
    if ki[3] != kj[3]:
        return "start"
    return "tie"
