"""Twin + stub conformance (DESIGN 2.1): the repository's own test inputs are pushed through
(a) the unmodified modules on the real file system and (b) the instrumented twins on the model
file system; outputs must be identical.  A mismatch is a harness error, never a violation.
python -m vp.conform <prop>"""
import importlib
import json
import os
import pickle
import shutil
import sys
import tempfile
import traceback

from . import loader, stubs

REPO = loader.REPO
D = os.path.join(REPO, "tests", "data")
HOME = os.environ.get("VP_HOME", os.path.dirname(os.path.dirname(os.path.abspath(__file__))))

SCEN = {
    "view_u2s": ["C01", "C02", "C16", "C04"],
    "view_s2u": ["C01", "C02", "C16", "C04"],
    "view_rev": ["C01", "C02"],
    "index": ["C03", "C04", "C05", "C17"],
    "view_nodes": ["C04", "C05", "C16", "C17"],
    "sort": ["C08", "C09", "C10", "C17"],
    "stat": ["C19", "C17", "C16"],
    "order": ["C06", "C07", "C18", "C15"],
    "find_path": ["C14", "C12", "C15"],
    "realign_pre": ["C11", "C12", "C13"],
}


def _read_lines(path):
    """(kind, lines, cookies) of a real file, cookies = what tell() really returns"""
    with open(path, "rb") as fh:
        gz = fh.read(2) == b"\x1f\x8b"
    lines = []
    cookies = []
    if gz and not path.endswith(".gfa.gz"):
        from pysam import libcbgzf

        fh = libcbgzf.BGZFile(path, "rb")
        while True:
            cookies.append(fh.tell())
            l = fh.readline()
            if not l:
                break
            lines.append(l.decode("utf-8"))
        fh.close()
        return "bgzf", lines, cookies
    if gz:
        import gzip

        with gzip.open(path, "rt") as fh:
            return "gzip", fh.readlines(), None
    fh = open(path, "r")
    while True:
        cookies.append(fh.tell())
        l = fh.readline()
        if not l:
            break
        lines.append(l)
    fh.close()
    return "text", lines, cookies


def _load_model(paths):
    e = stubs.reset()
    for p in paths:
        kind, lines, cookies = _read_lines(p)
        e.files[p] = stubs.MFile(kind, lines, cookies)
    return e


def _real_out(path):
    if not os.path.exists(path):
        return None
    return open(path).read().splitlines()


def _model_out(e, path):
    mf = e.files.get(path)
    if mf is None:
        return None
    return [str(l).rstrip("\n") for l in mf.lines]


def scenarios(mode, wd):
    """yields (name, result) ; mode in plain|sym"""
    sym = mode == "sym"
    res = {}

    def out(name):
        return os.path.join(wd, name)

    def run(name, fn, inputs, outputs, pickles=()):
        e = _load_model(inputs) if sym else None
        if sym and name in CARRY:
            e.pickles.update(CARRY[name])
        try:
            fn()
            err = None
        except BaseException as ex:  # noqa
            err = "%s: %s" % (type(ex).__name__, str(ex)[:200])
        r = {"err": err}
        for o in outputs:
            r[os.path.basename(o)] = _model_out(e, o) if sym else _real_out(o)
        for p in pickles:
            if sym:
                r[os.path.basename(p)] = repr(sorted(e.pickles.get(p, {}).items(), key=repr))
            else:
                r[os.path.basename(p)] = repr(sorted(pickle.load(open(p, "rb")).items(), key=repr)) if os.path.exists(p) else None
        if sym:
            r["stdout"] = [str(l).rstrip("\n") for l in e.stdout.lines()]
        res[name] = r
        return e

    CARRY = {}
    want = WANT
    import gaftools.cli.view as V

    g = os.path.join(D, "smallgraph.gfa")
    if "view_u2s" in want:
        for suffix in ("", ".gz"):
            gaf = os.path.join(D, "alignments-minigraph-unstable-conversioncheck.gaf" + suffix)
            o = out("u2s%s.gaf" % suffix)
            run("view_u2s" + suffix, lambda: V.run(gaf_path=gaf, gfa=g, output=o, format="stable"), [gaf, g], [o])
    if "view_s2u" in want:
        for suffix in ("", ".gz"):
            gaf = os.path.join(D, "alignments-minigraph-stable-conversioncheck.gaf" + suffix)
            o = out("s2u%s.gaf" % suffix)
            run("view_s2u" + suffix, lambda: V.run(gaf_path=gaf, gfa=g, output=o, format="unstable"), [gaf, g], [o])
    if "view_rev" in want:
        gaf = os.path.join(D, "alignments-minigraph-reversed-reads-unstable.gaf")
        o = out("rev_s.gaf")
        run("view_rev_s", lambda: V.run(gaf_path=gaf, gfa=g, output=o, format="stable"), [gaf, g], [o])
        gaf2 = os.path.join(D, "alignments-minigraph-reversed-reads-stable.gaf")
        o2 = out("rev_u.gaf")
        run("view_rev_u", lambda: V.run(gaf_path=gaf2, gfa=g, output=o2, format="unstable"), [gaf2, g], [o2])
    if "index" in want or "view_nodes" in want:
        import gaftools.cli.index as I

        for nm in ("alignments-minigraph-stable-conversioncheck.gaf", "alignments-minigraph-unstable-conversioncheck.gaf",
                   "alignments-minigraph-stable-conversioncheck.gaf.gz", "alignments-minigraph-unstable-conversioncheck.gaf.gz"):
            gaf = os.path.join(D, nm)
            o = out(nm + ".gvi")
            e = run("index:" + nm, lambda: I.run(gaf_path=gaf, gfa_path=g, output=o), [gaf, g], [], [o])
            if "view_nodes" in want:
                for fmt, nodes, regions in ((None, ["s2"], []), ("stable" if "unstable" in nm else "unstable", ["s464827", "s2"], []),
                                            (None, [], ["chr1:3300-3400"])):
                    vo = out("vn-%s-%s-%s.gaf" % (nm, fmt, "n" if nodes else "r"))
                    key = "view_nodes:%s:%s:%s" % (nm, fmt, "n" if nodes else "r")
                    if sym:
                        CARRY[key] = {o: e.pickles.get(o)}
                    run(key, lambda: V.run(gaf_path=gaf, gfa=g, output=vo, index=o, nodes=list(nodes), regions=list(regions), format=fmt),
                        [gaf, g], [vo])
    if "sort" in want:
        import gaftools.cli.sort as S

        go = os.path.join(D, "smallgraph-ordered.gfa")
        for nm in ("alignments-more-graphaligner.gaf.gz", "alignments-more-graphaligner.gaf"):
            gaf = os.path.join(D, nm)
            o = out("sorted-" + nm.replace(".gz", ""))
            oi = o + ".gsi"

            def go_sort():
                if sym:
                    stubs.env().writer_cookies[o] = list(range(10000))
                S.run_sort(gfa=go, gaf=gaf, outgaf=o)

            e = run("sort:" + nm, go_sort, [gaf, go], [o])
            # index: compare as record numbers (offset cookies are opaque in the model)
            if sym:
                idx = e.pickles.get(oi)
                res["sort:" + nm]["index"] = repr(sorted(idx.items())) if idx is not None else None
            else:
                idx = pickle.load(open(oi, "rb")) if os.path.exists(oi) else None
                if idx is not None:
                    offs = []
                    fh = open(o)
                    while True:
                        offs.append(fh.tell())
                        if not fh.readline():
                            break
                    idx = {k: [offs.index(v[0]), offs.index(v[1])] for k, v in idx.items()}
                res["sort:" + nm]["index"] = repr(sorted(idx.items())) if idx is not None else None
    if "stat" in want:
        import gaftools.cli.stat as ST

        for nm in ("alignments-graphaligner.gaf", "alignments-minigraph-stable.gaf", "alignments-minigraph-unstable.gaf",
                   "alignments-graphaligner.gaf.gz"):
            gaf = os.path.join(D, nm)
            for cg in (False, True):
                o = out("stat-%s-%s.txt" % (nm, cg))
                run("stat:%s:%s" % (nm, cg), lambda: ST.run_stat(gaf_path=gaf, cigar_stat=cg, output=o), [gaf], [o])
    if "order" in want:
        import gaftools.cli.order_gfa as O

        for by in (True, False):
            od = out("ord%d" % by)
            os.makedirs(od, exist_ok=True)
            outs = [os.path.join(od, "smallgraph-chr1.gfa"), os.path.join(od, "smallgraph-chr1.csv"),
                    os.path.join(od, "smallgraph-complete.gfa"), os.path.join(od, "smallgraph-complete.csv")]
            run("order:%s" % by, lambda: O.run_order_gfa(gfa_filename=g, outdir=od, by_chrom=by, chromosome_order="chr1",
                                                         with_sequence=not by), [g], outs)
    if "find_path" in want:
        import gaftools.cli.find_path as FP

        inp = os.path.join(D, "find_path-input.txt")
        for fa in (False, True):
            o = out("fp%d.txt" % fa)
            run("find_path:%s" % fa, lambda: FP.run(gfa_path=g, input_path=inp, output=o, fasta=fa), [g, inp], [o])
    return res


def pywfa_contract():
    """the stub aligner's contract (C12) checked against the real pywfa on the repository's realign fixtures"""
    loader.install("plain")
    import pysam
    from pywfa.align import WavefrontAligner
    from gaftools.gfa import GFA
    from gaftools.gaf import GAF

    problems = []
    g = GFA(os.path.join(D, "smallgraph.gfa"))
    fa = pysam.FastaFile(os.path.join(D, "reads.fa"))
    gaf = GAF(os.path.join(D, "alignments-graphaligner.gaf"))
    for al in gaf.read_file():
        ref = g.extract_path(al.path)[al.path_start:al.path_end]
        q = fa.fetch(al.query_name, al.query_start, al.query_end)
        a = WavefrontAligner(ref)
        res = a(q, clip_cigar=False)
        ops = res.cigartuples
        if any(op not in (0, 1, 2, 8) for op, ln in ops) or any(ln < 1 for op, ln in ops):
            problems.append("unexpected cigar operation in %r" % (ops,))
        if sum(ln for op, ln in ops if op in (0, 8, 1)) != len(q) or sum(ln for op, ln in ops if op in (0, 8, 2)) != len(ref):
            problems.append("cigartuples do not consume both sequences")
        if a.cigarstring != "".join("%d%s" % (ln, {0: "M", 1: "I", 2: "D", 8: "X"}[op]) for op, ln in ops):
            problems.append("cigarstring %r is not the rendering of cigartuples" % a.cigarstring)
    gaf.close()
    return problems


WANT = set()


def main():
    prop = sys.argv[1].upper() if len(sys.argv) > 1 else "ALL"
    for k, props in SCEN.items():
        if prop == "ALL" or prop in props:
            WANT.add(k)
    os.makedirs(os.path.join(HOME, "work"), exist_ok=True)
    wd = tempfile.mkdtemp(prefix="conform-", dir=os.path.join(HOME, "work"))
    try:
        loader.install("plain")
        plain = scenarios("plain", wd)
        loader.install("sym")
        sym = scenarios("sym", wd)
    except Exception as e:
        print("VPCONFORM " + json.dumps({"ok": False, "error": "".join(traceback.format_exception(type(e), e, e.__traceback__))[-3000:]}))
        return
    finally:
        shutil.rmtree(wd, ignore_errors=True)
    bad = []
    n = 0
    if "realign_pre" in WANT:
        try:
            c = pywfa_contract()
        except Exception as e:
            c = ["exception %r" % (e,)]
        n += 1
        for x in c:
            bad.append({"scenario": "pywfa-contract", "what": x, "plain": "", "twin": ""})
    for k in plain:
        a, b = plain[k], sym.get(k)
        for f in a:
            n += 1
            if f == "stdout":
                continue
            if b is None or a[f] != b.get(f):
                bad.append({"scenario": k, "what": f, "plain": str(a[f])[:300], "twin": str((b or {}).get(f))[:300]})
    print("VPCONFORM " + json.dumps({"ok": not bad, "n": n, "scenarios": sorted(plain), "mismatches": bad[:5]}))


if __name__ == "__main__":
    main()
