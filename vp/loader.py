"""Import hook: every gaftools.* module is loaded from the files currently in the repository,
AST-instrumented (symbolic mode) or untouched (plain mode), and executed under its real name.

Instrumentation (semantics preserving; exists only so that symbolic ints survive C-level
string formatting / float division, and so that loops have fuel):
  "<lit>" % args            -> vp_fmt_("<lit>", args)
  f"...{x}..."              -> vp_fstr_([...])
  "<lit>".join(xs)          -> vp_join_("<lit>", xs)
  "<lit>".format(a, ...)    -> vp_format_("<lit>", a, ...)
  a / b ;  x /= y           -> vp_div_(a, b)
  while ...: body           -> while ...: vp_tick_(); body
  @functools.lru_cache(..) / @cache -> @vp_cache_   (CrossHair disables the real one while tracing)
Module-level containers (dict/list/set/defaultdict/deque) of the analysed modules are snapshotted after import and restored at
the start of every execution, so that each explored path starts like a fresh process while state still carries between the
calls made inside one execution.
"""
import ast
import importlib.abc
import importlib.util
import os
import sys

REPO = os.environ.get("VP_REPO", "/repo")
MODE = ["sym"]
SITES = {}  # module name -> list of (lineno, kind)
LOADED = {}  # module name -> path


class Rewriter(ast.NodeTransformer):
    def __init__(self, modname):
        self.modname = modname
        self.sites = []

    def _site(self, node, kind):
        self.sites.append((getattr(node, "lineno", 0), kind))

    def visit_BinOp(self, node):
        self.generic_visit(node)
        if (
            isinstance(node.op, ast.Mod)
            and isinstance(node.left, ast.Constant)
            and isinstance(node.left.value, str)
        ):
            self._site(node, "%-format")
            return ast.copy_location(
                ast.Call(func=ast.Name(id="vp_fmt_", ctx=ast.Load()), args=[node.left, node.right], keywords=[]),
                node,
            )
        if isinstance(node.op, ast.Div):
            self._site(node, "true-division")
            return ast.copy_location(
                ast.Call(func=ast.Name(id="vp_div_", ctx=ast.Load()), args=[node.left, node.right], keywords=[]),
                node,
            )
        return node

    def visit_AugAssign(self, node):
        self.generic_visit(node)
        if isinstance(node.op, ast.Div) and isinstance(node.target, ast.Name):
            self._site(node, "true-division")
            load = ast.Name(id=node.target.id, ctx=ast.Load())
            return ast.copy_location(
                ast.Assign(
                    targets=[node.target],
                    value=ast.Call(func=ast.Name(id="vp_div_", ctx=ast.Load()), args=[load, node.value], keywords=[]),
                ),
                node,
            )
        return node

    def visit_JoinedStr(self, node):
        self.generic_visit(node)
        self._site(node, "f-string")
        parts = []
        for v in node.values:
            if isinstance(v, ast.Constant):
                parts.append(v)
            elif isinstance(v, ast.FormattedValue):
                spec = v.format_spec
                if spec is None:
                    spec_node = ast.Constant(value=None)
                elif isinstance(spec, ast.Call):
                    # already rewritten nested JoinedStr
                    spec_node = spec
                else:
                    spec_node = spec
                parts.append(
                    ast.Tuple(elts=[v.value, ast.Constant(value=v.conversion), spec_node], ctx=ast.Load())
                )
            else:
                parts.append(v)
        return ast.copy_location(
            ast.Call(
                func=ast.Name(id="vp_fstr_", ctx=ast.Load()),
                args=[ast.List(elts=parts, ctx=ast.Load())],
                keywords=[],
            ),
            node,
        )

    def visit_Call(self, node):
        self.generic_visit(node)
        f = node.func
        if (
            isinstance(f, ast.Attribute)
            and isinstance(f.value, ast.Constant)
            and isinstance(f.value.value, str)
            and not node.keywords
        ):
            if f.attr == "join" and len(node.args) == 1:
                self._site(node, "literal.join")
                return ast.copy_location(
                    ast.Call(func=ast.Name(id="vp_join_", ctx=ast.Load()), args=[f.value, node.args[0]], keywords=[]),
                    node,
                )
            if f.attr == "format":
                self._site(node, "literal.format")
                return ast.copy_location(
                    ast.Call(func=ast.Name(id="vp_format_", ctx=ast.Load()), args=[f.value] + node.args, keywords=[]),
                    node,
                )
        return node

    def _cache_decorator(self, d):
        f = d.func if isinstance(d, ast.Call) else d
        name = f.attr if isinstance(f, ast.Attribute) else f.id if isinstance(f, ast.Name) else None
        return name in ("lru_cache", "cache")

    def visit_FunctionDef(self, node):
        self.generic_visit(node)
        for i, d in enumerate(node.decorator_list):
            if self._cache_decorator(d):
                self._site(node, "memo-decorator")
                node.decorator_list[i] = ast.copy_location(ast.Name(id="vp_cache_", ctx=ast.Load()), d)
        return node

    def visit_While(self, node):
        self.generic_visit(node)
        self._site(node, "while-fuel")
        tick = ast.Expr(value=ast.Call(func=ast.Name(id="vp_tick_", ctx=ast.Load()), args=[], keywords=[]))
        ast.copy_location(tick, node)
        node.body.insert(0, tick)
        return node


class Loader(importlib.abc.Loader):
    def __init__(self, path, name):
        self.path = path
        self.name = name

    def create_module(self, spec):
        return None

    def exec_module(self, module):
        with open(self.path) as fh:
            src = fh.read()
        tree = ast.parse(src, self.path)
        LOADED[self.name] = self.path
        if MODE[0] == "sym":
            from . import rt, stubs

            rw = Rewriter(self.name)
            tree = rw.visit(tree)
            ast.fix_missing_locations(tree)
            SITES[self.name] = rw.sites
            module.__dict__.update(rt.INJECT)
            module.__dict__.update(stubs.PRE_INJECT)
            exec(compile(tree, self.path, "exec"), module.__dict__)
            stubs.rebind_module(module)
            snapshot_globals(module)
        else:
            exec(compile(tree, self.path, "exec"), module.__dict__)
            if MODE[0] == "plainstub":
                from . import stubs

                module.__dict__.update(stubs.PRE_INJECT)
                stubs.rebind_module(module)


SNAP = {}  # module name -> {global name: (object, deep copy of its initial content)}


def snapshot_globals(module):
    import collections
    import copy

    snap = {}
    for k, v in list(module.__dict__.items()):
        if k.startswith("__") or k.startswith("vp_"):
            continue
        if type(v) in (dict, list, set, collections.defaultdict, collections.deque, collections.OrderedDict):
            try:
                snap[k] = (v, copy.deepcopy(v))
            except Exception:
                pass
    SNAP[module.__name__] = (module, snap, set(module.__dict__.keys()))


def restore_globals():
    """module-level state of the analysed modules back to what it was right after import"""
    import copy

    for name, (module, snap, keys) in SNAP.items():
        for k, (obj, init) in snap.items():
            try:
                if isinstance(obj, dict):
                    if obj != init:
                        obj.clear()
                        obj.update(copy.deepcopy(init))
                elif isinstance(obj, list):
                    if obj != init:
                        obj[:] = copy.deepcopy(init)
                elif isinstance(obj, set):
                    if obj != init:
                        obj.clear()
                        obj.update(init)
                else:
                    obj.clear()
                    obj.extend(copy.deepcopy(init))
            except Exception:
                pass
            if module.__dict__.get(k) is not obj:
                module.__dict__[k] = obj
        # containers created later at module level (e.g. a memo dict assigned by a function through `global`)
        for k in list(module.__dict__.keys()):
            if k not in keys and not k.startswith("vp_"):
                v = module.__dict__[k]
                if type(v) in (dict, list, set):
                    del module.__dict__[k]


class Finder(importlib.abc.MetaPathFinder):
    def find_spec(self, name, path, target=None):
        if name != "gaftools" and not name.startswith("gaftools."):
            return None
        rel = name.replace(".", "/")
        p = os.path.join(REPO, rel + ".py")
        pkg = os.path.join(REPO, rel, "__init__.py")
        if os.path.exists(pkg):
            return importlib.util.spec_from_file_location(
                name, pkg, loader=Loader(pkg, name), submodule_search_locations=[os.path.join(REPO, rel)]
            )
        if os.path.exists(p):
            return importlib.util.spec_from_file_location(name, p, loader=Loader(p, name))
        return None


_FINDER = Finder()


def purge():
    for k in list(sys.modules):
        if k == "gaftools" or k.startswith("gaftools."):
            del sys.modules[k]


def install(mode="sym"):
    """mode: 'sym' (instrumented + stubs), 'plainstub' (unmodified code + environment stubs),
    'plain' (unmodified code, real environment)"""
    MODE[0] = mode
    purge()
    SITES.clear()
    LOADED.clear()
    if _FINDER not in sys.meta_path:
        sys.meta_path.insert(0, _FINDER)


def function_lines(modname, qualnames):
    """file:line of functions read from the tree (for the evidence file)"""
    path = LOADED.get(modname)
    if not path:
        return []
    tree = ast.parse(open(path).read())
    out = []

    def walk(node, prefix):
        for ch in ast.iter_child_nodes(node):
            if isinstance(ch, (ast.FunctionDef, ast.ClassDef)):
                q = prefix + ch.name
                if isinstance(ch, ast.FunctionDef) and (q in qualnames or ch.name in qualnames):
                    out.append("%s:%d-%d %s" % (os.path.relpath(path, REPO), ch.lineno, ch.end_lineno, q))
                walk(ch, q + ".")

    walk(tree, "")
    return out
