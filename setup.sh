#!/bin/bash
# Builds the overlay interpreter /verif/.venv (idempotent, offline).
#   /venv's python + a .pth that exposes /venv's site-packages (pysam, pywfa) + crosshair-tool
#   and z3-solver from the offline wheelhouse.  /venv itself and /repo are not touched.
set -e
cd "$(dirname "$0")"
V="$(pwd)/.venv"
STAMP="$V/.vp_ready"
if [ -f "$STAMP" ] && "$V/bin/python" -c "import crosshair, z3, pysam" 2>/dev/null; then
  exit 0
fi
exec 9>"$V.lock"
flock 9
if [ -f "$STAMP" ] && "$V/bin/python" -c "import crosshair, z3, pysam" 2>/dev/null; then
  exit 0
fi
rm -rf "$V"
/venv/bin/python -m venv "$V"
SP=$("$V/bin/python" -c "import sysconfig;print(sysconfig.get_paths()['purelib'])")
echo "import site; site.addsitedir('/venv/lib/python3.12/site-packages')" > "$SP/vp_base.pth"
PIP_NO_INDEX=1 "$V/bin/pip" install -q --no-index --find-links /opt/veriftools/wheels crosshair-tool z3-solver >/dev/null 2>"$V/pip.err" || { cat "$V/pip.err"; exit 2; }
"$V/bin/python" -c "import crosshair, z3, pysam; print('overlay ok: crosshair', crosshair.__version__ if hasattr(crosshair,'__version__') else '', 'z3', z3.get_version_string())"
touch "$STAMP"
